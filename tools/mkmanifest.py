#!/venv/bin/python
"""Regenerate /verif/MANIFEST.json from the table below (keeps it valid at all times)."""
import json
import os

HERE = os.path.abspath(os.path.join(os.path.dirname(__file__), ".."))
props = [json.loads(l) for l in open(os.path.join(HERE, "properties.jsonl"))]

# property -> (technique, level text, level note, design ref)
CLAIMED = {}
NOT_YET = {}


def claim(pid, technique, text, note, ref):
    CLAIMED[pid] = (technique, text, note, ref)


exec(open(os.path.join(HERE, "tools", "claims.py")).read())

# input classes / histories / oracle clauses added after the seeded-change rounds 2 and 3 (DESIGN.md 9.4); appended to the level text
EXT = {
    "C01": "dense operands reached by growth (C-ordered buffers); every input form of sptenmat.from_array (dense C/F, COO canonical / shuffled / repeated / explicit zero, CSR, CSC); NumPy-integer arguments; Kruskal matricization under every call form; structured Tucker factors (rectangular identity, orthonormal, unit-length, selector); sparse-core Tucker tensors under all 27 factor-aspect patterns; Kruskal tensors with as many or more components than entries; the cyclic-order option beside an explicit column list",
    "C02": "grown dense and sparse operands, independent operand histories for innerprod; mttkrps on shapes with off-centre memory splits and 5-6 modes; multi-mode plain-array scale factors; NumPy-integer arguments; structured Tucker factors and Kruskal weight classes (exact 1.0, all ones, a zero weight); Tucker holders with SciPy sparse factor matrices; Kruskal / Tucker tensors that denote zero by cancellation; long almost-empty sparse modes with colliding entries; sparse pairs over one position set with independent stored orders; Tucker tensors with SciPy sparse factors; zero norms through cancellation; sums of three to six parts; integer-typed sum parts",
    "C03": "sparse operands reached by operator -> growth -> operator histories; element-type pairs judged against NumPy promotion; non-finite stored values under scalar operations; a Kruskal right-hand side of * (mixed signs, exact integer products); negative-zero divisors; dense operands one ulp away; equal infinities; non-finite second operands; infinite / NaN scalar multipliers; one object as both operands; NaN divisors and Python integers beyond machine integers as scalars",
    "C04": "strided and reversed slices; the receiver itself as right-hand side (with growth); positions counted from the end together with growth; repeated index-list entries in reads and scalar writes; reversed slices in writes; permuted runs as index lists; overshooting and downward slice bounds; ndarray index lists; bare positions for one-way sparse writes; array right-hand sides through lists with repeated positions; a catalogue of key forms from a random stream of its own (re-ordered runs, lists starting past the extent, every step form with growth, downward slices from past the extent)",
    "C05": "receiver-after-call vs argument aliasing for in-place operations; sparse-core / sparse-factor Tucker tensors in every generic entry; products over no mode; gcp evaluate / estimate entries; gcp samplers and list guesses; sums with one part / a dense part first or last; sparse tensors that store every entry in dense-layout / row-major order",
    "C06": "exact-cancellation family (no explicit zero may be stored); replay of C01's from_array input forms; infinite divisors; sptenmat item assignment with repeated positions and zero values; exhaustive stored orders capped at 4 nonzeros (24 drawn orders beyond); colliding diagonal entries in 4-5-way contractions; reducers other than the sum in collapse and the aggregating constructor; same-position operand pairs; region reads through non-ascending lists and downward slices; matricized forms of one tensor under different stored orders compared as objects",
    "C07": "grown dense / sparse operands; narrow subscript element types; integer values beyond 2^53; NumPy-integer arguments; partial reshapes of order 9-11; the new shape as a one-shot iterable",
    "C08": "object pre-histories (absorbing normalisations, redistribute, arrange, C-ordered factors, update, sign-changing steps); NumPy-integer mode arguments; exact-zero congruences in score; tovec stacking definition; update data as integers / column / row; sign fixing against references with other component counts; normal form after sign fixing against any reference; single-mode normalisation in every norm; permutations as array / list / tuple / range; unordered and repeated component lists; weights of +-1 only; prescribed counts of negative-dominant factors (orders 3-5)",
    "C09": "data scales 1e-11..1e4; nearly superdiagonal data; stored element types of dense data (uint8..int32, bool, float32); long sparse modes with collisions",
    "C10": "stored element types; data scales to 1e-9; steep spectra with tolerances to 1e-6; data of the requested multilinear rank up to noise 1e-4..1e-8; exactly low-rank data with tall unfoldings and requested ranks above the data's; singleton modes at every position of the Tucker-ALS sweep; tied spectra cut through the tie; coordinate-vector starts on data with a vanishing fibre; spectra at the edge of the per-mode budget; options by position",
    "C11": "time-budget exit; per-iteration output lengths; integer count storage with a float-storage twin run; near-truth guesses; over-parameterised fits (dying components); data without any count; guesses with a zero weight; tolerance sweeps to exactly zero; restarts from converged results; sparse data with explicitly stored zero counts; smallest row-solver budgets on tiny tables (thorough: 1600)",
    "C12": "mixed unit / non-unit weights with the weight-checking call form; off-centre 4-way and 5-way shapes; semi-stratified exactness identity with one / two / many nonzeros and reciprocal weights; partial sample sets (one draw, a few, leading slices only); Kruskal-operand form of the all-modes MTTKRP; zero and signed weights; residuals exactly on the Huber kink; scattered unordered correction ranges; Kruskal operands of mttkrps",
    "C13": "solver reuse across problem sizes run to convergence; mask forms through gcp_opt with a hidden-value independence relation; explicit sampler pairings (stratified / semi-stratified / uniform) in solves; smallest two-stratum sampler requests (1+0, 0+1, 1+1, 0+3, 2+0); independent sampler kinds for function and gradient; failing-step families crossed with tolerance kinds and sampler pairings; a caller-supplied zero bound active at the solution; differential L-BFGS-B oracle through gcp_opt; earlier reports compared again after later solves; caller-supplied bounds of either sign",
    "C14": "sparse Tucker holders; direct-solver path judged outside the separated domain; empty trailing slices; data scales 1e-100..1e8; NumPy-integer arguments; Tucker tensors with orthonormal tall factors; scattered sparse data with a diagonal Gram matrix; symmetric indefinite matrices and (I, I, 1) tensors",
    "C15": "already-symmetric Kruskal inputs; stored element types (bool, int8, uint8, int32) and infinite entries on whole permutation orbits; NumPy-integer arguments; three and four groups (orders 6-8); data invariant under a proper subgroup only (rotations, dihedral, pair swaps; four and five listed modes); classes whose average is not a number; both versions' results under the symmetry test; 64-bit integers beyond 2^53; sequences of calls on one shape",
    "C16": "explicitly stored zeros; prior explicit-format export in the same process; grown tensors; index spaces beyond 2^53; vectors and 3-way arrays written as matrix blocks; whole-number doubles; a failed export of the same object first",
    "C17": "narrow / huge subscript types in both memory orders against exact integer arithmetic; row sets of thousands of rows; NumPy-integer arguments; full-length index lists; signed row alphabets; all mode orders; explicitly empty selections",
    "C18": "seeded stochastic GCP on sparse data with sub-sampling; scale factors 1e-10..1e8; integer-typed data; rounding-sensitivity gate for cp_apr comparisons; relabelling for GCP (L-BFGS-B) and four-way shapes; integer-typed data in every dense / sparse CP-ALS comparison; runs ending on the time budget; masked randomly started GCP; prescribed unequal ranks under relabelling; a subset of optimised modes; the guess as Kruskal tensor / list / tuple; all-zero factor rows",
    "C19": "all-zero / full sparse receivers for every row; one-past-the-end subscripts in a single mode; every tenmat operator incl. the broadcastable split pair; offending aggregator rows that aggregate to zero; Kruskal operands of another order, surplus / single columns in mttkrp, mttkrps row counts, array scale factors of another shape, reconstruct modes, constructor value counts, update modes, rejected assignments that would grow the receiver, sparse right-hand sides that do not fit their slice, optdims / rank-list options; the no-copy twin of every constructor row; odd mode anywhere in a symmetry group (both versions); downward slice in an absent mode; sptenmat value counts; gcp_opt guesses of another rank / shape; one bare matrix for several modes; any operand kind on either side of a sum; non-cubical ttsv; per-mode inner-product mismatches; sparse right-hand sides of another order; matrices of values",
    "C20": "layout option and second-call-after-scribble for diag / eye; index spaces beyond 2^63 cells; NumPy-integer arguments; zero diagonal elements; reducers by name (len, var, std, prod, first, last) and order-dependent callables over all-distinct / descending subscript lists; order-6 identity tensors; non-finite aggregates; functions returning vectors / columns / other shapes; requests for density exactly 1",
}
for _pid, _ext in EXT.items():
    if _pid in CLAIMED:
        t_, x_, n_, r_ = CLAIMED[_pid]
        CLAIMED[_pid] = (t_, x_ + " Input classes added after the seeded-change rounds (DESIGN.md 9.4): " + _ext + ".", n_, r_)

checks = []
for p in props:
    pid = p["id"]
    if pid not in CLAIMED:
        continue
    tech, text, note, ref = CLAIMED[pid]
    checks.append({
        "property_id": pid,
        "quick_cmd": f"./check {pid} quick",
        "thorough_cmd": f"./check {pid} thorough",
        "evidence_file": f"/verif/evidence/{pid}.json",
        "replay_cmd_template": f"./check {pid} --replay {{path}}",
        "engine": "pvm",
        "level_claimed": {"category": "exploration", "text": text, "design_ref": ref},
        "level_note": note,
        "technique": tech,
    })
na = [{"property_id": p["id"], "reason": NOT_YET.get(p["id"], "check not built yet in this session; see DESIGN.md section 4 for the planned monitor")}
      for p in props if p["id"] not in CLAIMED]
man = {
    "version": 1,
    "setup_cmd": "true",
    "hooks": {
        "guard": "PVM_MONITOR",
        "enable": "no source hooks: ./check sets PVM_MONITOR=1 and applies all instrumentation at run time from /verif/pvm (boundary Ctx.call, MutSan, structural sanitizer, sys.monitoring coverage); /repo is imported from its working tree ($PVM_REPO, default /repo) with -B, no build step",
        "baseline_off_cmd": "cd /repo && /venv/bin/python -m pytest -ra -q -p no:cacheprovider --timeout=900 --continue-on-collection-errors",
        "source_commits": [],
        "add_only": True,
    },
    "engines": [{
        "name": "pvm", "path": "/verif/pvm",
        "serves_properties": sorted(CLAIMED),
        "kind_free_text": "runtime monitors: client-boundary event log, denotation oracle + reference semantics, structural sanitizer, mutation/alias sanitizer, sys.monitoring coverage accounting, algorithm trace proxies; seeded + exhaustive-in-the-small workloads sharded over 16 processes",
    }],
    "checks": checks,
    "not_applicable": na,
    "notes": "Every check imports pyttb from /repo's current working tree. Exit 0 = held on everything explored (KNOWN-FINDING lines for entries of /verif/known_findings.json), 1 = unlisted violation (VIOLATION line + replay file), 2 = inconclusive (watchdog, dead shard, deciding monitor never reached).",
}
with open(os.path.join(HERE, "MANIFEST.json"), "w") as f:
    json.dump(man, f, indent=1)
print("checks:", len(checks), "not_applicable:", len(na))
