#!/venv/bin/python
"""Regenerate /verif/MANIFEST.json from the table below (keeps it valid at all times)."""
import json
import os

HERE = os.path.abspath(os.path.join(os.path.dirname(__file__), ".."))
props = [json.loads(l) for l in open(os.path.join(HERE, "properties.jsonl"))]

# property -> (technique, level text, level note, design ref)
CLAIMED = {}
NOT_YET = {}


def claim(pid, technique, text, note, ref):
    CLAIMED[pid] = (technique, text, note, ref)


exec(open(os.path.join(HERE, "tools", "claims.py")).read())

checks = []
for p in props:
    pid = p["id"]
    if pid not in CLAIMED:
        continue
    tech, text, note, ref = CLAIMED[pid]
    checks.append({
        "property_id": pid,
        "quick_cmd": f"./check {pid} quick",
        "thorough_cmd": f"./check {pid} thorough",
        "evidence_file": f"/verif/evidence/{pid}.json",
        "replay_cmd_template": f"./check {pid} --replay {{path}}",
        "engine": "pvm",
        "level_claimed": {"category": "exploration", "text": text, "design_ref": ref},
        "level_note": note,
        "technique": tech,
    })
na = [{"property_id": p["id"], "reason": NOT_YET.get(p["id"], "check not built yet in this session; see DESIGN.md section 4 for the planned monitor")}
      for p in props if p["id"] not in CLAIMED]
man = {
    "version": 1,
    "setup_cmd": "true",
    "hooks": {
        "guard": "PVM_MONITOR",
        "enable": "no source hooks: ./check sets PVM_MONITOR=1 and applies all instrumentation at run time from /verif/pvm (boundary Ctx.call, MutSan, structural sanitizer, sys.monitoring coverage); /repo is imported from its working tree ($PVM_REPO, default /repo) with -B, no build step",
        "baseline_off_cmd": "cd /repo && /venv/bin/python -m pytest -ra -q -p no:cacheprovider --timeout=900 --continue-on-collection-errors",
        "source_commits": [],
        "add_only": True,
    },
    "engines": [{
        "name": "pvm", "path": "/verif/pvm",
        "serves_properties": sorted(CLAIMED),
        "kind_free_text": "runtime monitors: client-boundary event log, denotation oracle + reference semantics, structural sanitizer, mutation/alias sanitizer, sys.monitoring coverage accounting, algorithm trace proxies; seeded + exhaustive-in-the-small workloads sharded over 16 processes",
    }],
    "checks": checks,
    "not_applicable": na,
    "notes": "Every check imports pyttb from /repo's current working tree. Exit 0 = held on everything explored (KNOWN-FINDING lines for entries of /verif/known_findings.json), 1 = unlisted violation (VIOLATION line + replay file), 2 = inconclusive (watchdog, dead shard, deciding monitor never reached).",
}
with open(os.path.join(HERE, "MANIFEST.json"), "w") as f:
    json.dump(man, f, indent=1)
print("checks:", len(checks), "not_applicable:", len(na))
