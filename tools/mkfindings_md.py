#!/venv/bin/python
"""Render known_findings.json as FINDINGS.md (human-readable list of recorded findings and repairs)."""
import json, os
HERE = os.path.abspath(os.path.join(os.path.dirname(__file__), ".."))
d = json.load(open(os.path.join(HERE, "known_findings.json")))
known = [f for f in d["findings"] if f["status"] == "known"]
fixed = [f for f in d["findings"] if f["status"] == "fixed"]
out = ["# Findings in sandialabs/pyttb made by the monitors", "",
       "Generated from `known_findings.json` by `tools/mkfindings_md.py`. *Known* = genuine defect recorded, not repaired (the check prints a",
       "`KNOWN-FINDING:` line when it sees it and still exits 0; anything else in the same operation is an unlisted VIOLATION).",
       "*Fixed* = repaired by one `fix:` commit in /repo; a fixed entry suppresses nothing.", "",
       f"## Known findings ({len(known)})", ""]
for f in known:
    ops = f["op"] if isinstance(f["op"], list) else [f["op"]]
    out.append(f"* **{f['id']}** ({f['property']}; op {', '.join(ops)}; symptom {f['symptom']}; predicate `{json.dumps(f['predicate'])}`): {f['what_fails']}")
out += ["", f"## Repaired defects ({len(fixed)})", ""]
for f in fixed:
    out.append(f"* **{f['id']}** {f['record']}")
open(os.path.join(HERE, "FINDINGS.md"), "w").write("\n".join(out) + "\n")
print(len(known), "known,", len(fixed), "fixed")
