#!/bin/sh
# keep_round5.sh <ID> : copy /tmp/wt8/<ID>/_seeded/{patch,demo,notes}{1,2} to /verif/seeded/<ID>-{15,16} and evaluate them
ID=$1
for k in 1 2; do
  n=$((k+14)); d=/verif/seeded/$ID-$n
  [ -f /tmp/wt8/$ID/_seeded/patch$k.diff ] || continue
  mkdir -p $d; cp /tmp/wt8/$ID/_seeded/patch$k.diff $d/patch.diff; cp /tmp/wt8/$ID/_seeded/demo$k.py $d/demo.py; cp /tmp/wt8/$ID/_seeded/notes$k.md $d/notes.md 2>/dev/null
  /verif/tools/seedeval.sh $ID $n | tail -1 | /venv/bin/python -c "import sys,json; d=json.loads(sys.stdin.read()); print(d['id'], 'demo', d.get('demo_clean_rc'), d.get('demo_mutant_rc'), d.get('doctests','')[:10], d.get('functional','')[:10], d.get('checks'), d.get('error',''))"
done
