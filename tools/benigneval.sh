#!/bin/sh
# tools/benigneval.sh <ID> <k> : evaluate a property-PRESERVING change (benign round): every check must stay silent on it.
#   source: /verif/benign/<ID>-b<k>/{patch.diff,demo.py,notes.md}
# Steps: scratch copy of /repo; apply the patch; both repository suites must stay green; the agent's demo must exit 0 with the change;
# then ./check <ID> quick and thorough, and the quick check of every other property, all with PVM_REPO=<scratch>: every rc must be 0.
ID="$1"; K="$2"
D=/verif/benign/$ID-b$K
[ -f "$D/patch.diff" ] || { echo "{\"id\":\"$ID-b$K\",\"error\":\"no patch\"}"; exit 2; }
S=$(mktemp -d /tmp/pvm_benign_XXXXXX)
rsync -a --exclude .git --exclude '*.pyc' --exclude __pycache__ --exclude _seeded --exclude _benign /repo/ "$S/"
cd "$S" || exit 2
if ! patch -p1 -s < "$D/patch.diff" > "$S/patch.log" 2>&1; then echo "{\"id\":\"$ID-b$K\",\"error\":\"patch does not apply\"}"; rm -rf "$S"; exit 3; fi
T1=$(PYTHONPATH="$S" /venv/bin/python -m pytest -q -p no:cacheprovider 2>&1 | tail -1)
T2=$(PYTHONPATH="$S" /venv/bin/python -m pytest -q -p no:cacheprovider -o addopts="" tests --deselect tests/test_package.py 2>&1 | tail -1)
PYTHONPATH="$S" timeout 900 /venv/bin/python "$D/demo.py" > "$S/demo.txt" 2>&1; DM=$?
cd /verif || exit 2
RES=""
PVM_REPO="$S" PVM_OUT="$S/pvm_out" PVM_EVIDENCE=/dev/null timeout 3600 ./check "$ID" thorough > "$S/check_thorough.txt" 2>&1; RC=$?
RES="$RES \"$ID:thorough\":$RC,"
[ $RC -ne 0 ] && grep -E "^VIOLATION|^  op=|^INCONC" "$S/check_thorough.txt" | head -6 | cut -c1-300
for C in C01 C02 C03 C04 C05 C06 C07 C08 C09 C10 C11 C12 C13 C14 C15 C16 C17 C18 C19 C20; do
  PVM_REPO="$S" PVM_OUT="$S/pvm_out" PVM_EVIDENCE=/dev/null timeout 1800 ./check "$C" quick > "$S/check_$C.txt" 2>&1; RC=$?
  if [ $RC -ne 0 ]; then RES="$RES \"$C\":$RC,"; grep -E "^VIOLATION|^  op=|^INCONC" "$S/check_$C.txt" | head -6 | cut -c1-300; fi
done
echo "{\"id\":\"$ID-b$K\",\"demo_with_change_rc\":$DM,\"doctests\":\"$T1\",\"functional\":\"$T2\",\"nonzero_checks\":{${RES%,}}}"
rm -rf "$S"
