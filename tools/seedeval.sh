#!/bin/sh
# tools/seedeval.sh <ID> <k> [extra check ids...] : validate a sub-agent's seeded change and run the checks against it.
#   source : /tmp/wt/<ID>/_seeded/{patch<k>.diff,demo<k>.py,notes<k>.md}   (or /verif/seeded/<ID>-<k>/ when already kept)
# Steps: copy /repo -> scratch (outside /repo and /verif); demo on the clean copy must exit 0; apply the patch; both repository test
# suites must stay green; demo must now exit non-zero; then ./check <ID> quick (and the extra ids) with PVM_REPO=<scratch>.
# Prints a JSON summary line; the scratch copy is removed.
ID="$1"; K="$2"; shift 2; EXTRA="$*"
KEPT=/verif/seeded/$ID-$K
if [ -f "$KEPT/patch.diff" ]; then P=$KEPT/patch.diff; D=$KEPT/demo.py; else P=/tmp/wt/$ID/_seeded/patch$K.diff; D=/tmp/wt/$ID/_seeded/demo$K.py; fi
[ -f "$P" ] || { echo "{\"id\":\"$ID-$K\",\"error\":\"no patch\"}"; exit 2; }
S=$(mktemp -d /tmp/pvm_seed_XXXXXX)
rsync -a --exclude .git --exclude '*.pyc' --exclude __pycache__ --exclude _seeded /repo/ "$S/"
cd "$S" || exit 2
PYTHONPATH="$S" timeout 600 /venv/bin/python "$D" > "$S/demo_clean.txt" 2>&1; DC=$?
if ! patch -p1 -s < "$P" > "$S/patch.log" 2>&1; then echo "{\"id\":\"$ID-$K\",\"error\":\"patch does not apply\"}"; cat "$S/patch.log" | head -5; rm -rf "$S"; exit 3; fi
T1=$(PYTHONPATH="$S" /venv/bin/python -m pytest -q -p no:cacheprovider 2>&1 | tail -1)
T2=$(PYTHONPATH="$S" /venv/bin/python -m pytest -q -p no:cacheprovider -o addopts="" tests --deselect tests/test_package.py 2>&1 | tail -1)
PYTHONPATH="$S" timeout 600 /venv/bin/python "$D" > "$S/demo_mut.txt" 2>&1; DM=$?
cd /verif || exit 2
RES=""
for C in $ID $EXTRA; do
  PVM_REPO="$S" PVM_OUT="$S/pvm_out" PVM_EVIDENCE=/dev/null timeout 1800 ./check "$C" ${TIER:-quick} > "$S/check_$C.txt" 2>&1; RC=$?
  NV=$(grep -c "^VIOLATION" "$S/check_$C.txt")
  RES="$RES \"$C\":{\"rc\":$RC,\"violation_lines\":$NV},"
  if [ -n "${SHOW:-}" ]; then grep -E "^VIOLATION|^  op=|^INCONC" "$S/check_$C.txt" | head -6 | cut -c1-260; fi
done
echo "{\"id\":\"$ID-$K\",\"demo_clean_rc\":$DC,\"demo_mutant_rc\":$DM,\"doctests\":\"$T1\",\"functional\":\"$T2\",\"checks\":{${RES%,}}}"
rm -rf "$S"
