#!/bin/sh
# seeded_seedscan.sh <VERIF_SEED> : evaluate every kept seeded change under another check seed (no meta.json is written); a change that is
# caught under one seed and missed under another is caught by luck, not by construction.
export VERIF_SEED=$1
cd "$(dirname "$0")/.." || exit 2
for d in seeded/C??-[0-9] seeded/C??-[0-9][0-9]; do
  [ -d "$d" ] || continue
  idk=$(basename "$d"); id=${idk%-*}; k=${idk#*-}
  tools/seedeval.sh "$id" "$k" | grep "^{" | tail -1 | cut -c1-40,140-400
done
