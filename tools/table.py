#!/venv/bin/python
"""table.py PROP OP key1,key2,...  -- decision table of fails (per symptom) / passes for OP over the keys."""
import json, os, sys, collections
HERE = os.path.abspath(os.path.join(os.path.dirname(__file__), ".."))
prop, op, keys = sys.argv[1], sys.argv[2], sys.argv[3].split(",")
d = json.load(open(os.path.join(HERE, "out", f"triage-{prop}.json")))
tab = collections.defaultdict(lambda: collections.Counter())
for s, f, n in d["fails"].get(op, []):
    tab[tuple(str(f.get(k)) for k in keys)][s] += n
for f, n in d["passes"].get(op, []):
    tab[tuple(str(f.get(k)) for k in keys)]["pass"] += n
print(keys)
for combo in sorted(tab):
    print(combo, dict(tab[combo]))
