#!/bin/sh
# benign_all.sh : re-evaluate every kept property-preserving change (benign/<ID>-b<k>) against the current checks; every exit code must be 0.
cd "$(dirname "$0")/.." || exit 2
for d in benign/C??-b[0-9]; do
  idk=$(basename "$d"); id=${idk%-b*}; k=${idk#*-b}
  tools/benigneval.sh "$id" "$k" | grep "^{\|^VIOLATION\|^  op=" | cut -c1-400
done
