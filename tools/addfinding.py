#!/venv/bin/python
"""addfinding.py ID PROPERTY STATUS COMMIT OP[,OP] SYMPTOM 'PREDICATE-JSON' 'what fails'"""
import json, sys, os
HERE = os.path.abspath(os.path.join(os.path.dirname(__file__), ".."))
fid, prop, status, commit, ops, sym, pred, what = sys.argv[1:9]
p = os.path.join(HERE, "known_findings.json")
d = json.load(open(p))
d["findings"] = [f for f in d["findings"] if f["id"] != fid]
e = {"id": fid, "property": prop, "status": status, "op": ops.split(",") if "," in ops else ops,
     "symptom": sym.split(",") if "," in sym else sym, "predicate": json.loads(pred), "what_fails": what}
if status == "fixed":
    e["commit"] = commit
    e["record"] = f"fixed: property={prop} {commit} {what}"
d["findings"].append(e)
json.dump(d, open(p, "w"), indent=1)
