#!/bin/sh
# prepare_round.sh <round-number> : worktrees /tmp/wt<R>/C01..C20 at /repo HEAD, property texts, lists of sites already used (from the
# seeded-change matrices in DESIGN.md 9.4), instructions.  Sub-agents get ONLY /tmp/wt<R>; nothing from /verif is handed to them.
R=$1; D=/tmp/wt$R
mkdir -p $D
for i in 01 02 03 04 05 06 07 08 09 10 11 12 13 14 15 16 17 18 19 20; do
  git -C /repo worktree add -q --detach $D/C$i HEAD
done
sed "s|/tmp/wtR/|$D/|g" /verif/tools/agents/INSTRUCTIONS.template.md > $D/INSTRUCTIONS.md
/venv/bin/python - "$D" <<'PY'
import json, re, sys
D = sys.argv[1]
for l in open('/verif/properties.jsonl'):
    p = json.loads(l)
    open(f"{D}/{p['id']}.prop.txt", "w").write(f"{p['id']}: {p['title']}\n\n{p['statement']}\n\nQuantified {p['quantifier']['text']}.\n")
rows = {}
for line in open('/verif/DESIGN.md'):
    m = re.match(r"\| (C\d\d)-(\d+)(?: / C\d\d-\d+)? \| (.*?) \| ", line)
    if m:
        rows.setdefault(m.group(1), []).append(m.group(3))
for pid, items in rows.items():
    open(f"{D}/{pid}.covered.txt", "w").write("Already covered in the previous rounds (choose other sites and other kinds of trigger):\n- " + "\n- ".join(items) + "\n")
print({k: len(v) for k, v in rows.items()})
PY
