#!/bin/sh
# Run the repository's own suites against a tree (default /repo): pinned doctests + functional tests.
R=${1:-/repo}
cd "$R" || exit 2
echo "== pinned doctests"
/venv/bin/python -m pytest -q -p no:cacheprovider --timeout=900 2>&1 | tail -2
echo "== functional tests (tests/, without doctest addopts)"
/venv/bin/python -m pytest -q -p no:cacheprovider -o addopts="" tests --deselect tests/test_package.py 2>&1 | tail -2
