#!/bin/sh
# keep_benign2.sh <ID> : copy /tmp/wtb3/<ID>/_benign/{patch,demo,notes}{1,2} to /verif/benign/<ID>-b{5,6} and evaluate them
ID=$1
for k in 1 2; do
  n=$((k+4)); d=/verif/benign/$ID-b$n
  [ -f /tmp/wtb3/$ID/_benign/patch$k.diff ] || continue
  mkdir -p $d; cp /tmp/wtb3/$ID/_benign/patch$k.diff $d/patch.diff; cp /tmp/wtb3/$ID/_benign/demo$k.py $d/demo.py; cp /tmp/wtb3/$ID/_benign/notes$k.md $d/notes.md 2>/dev/null
  /verif/tools/benigneval.sh $ID $n | tail -8
done
