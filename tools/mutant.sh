#!/bin/sh
# tools/mutant.sh <patch.diff | -e 'sed-expr' file> <PROP> [tier] : run a check against a scratch copy of /repo with a change applied.
# The scratch copy lives outside /repo and /verif and is removed afterwards. Prints the check's tail and exit code.
set -u
PATCH=$(readlink -f "$1"); PROP="$2"; TIER="${3:-quick}"
S=$(mktemp -d /tmp/pvm_mut_XXXXXX)
rsync -a --exclude .git --exclude '*.pyc' --exclude __pycache__ /repo/ "$S/"
cd "$S" || exit 2
if ! patch -p1 -s < "$PATCH"; then echo "PATCH-FAILED"; rm -rf "$S"; exit 3; fi
if [ -n "${MUT_TESTS:-}" ]; then
  /venv/bin/python -m pytest -q -p no:cacheprovider 2>&1 | tail -1
fi
cd /verif || exit 2
PVM_REPO="$S" PVM_OUT="$S/pvm_out" PVM_EVIDENCE=/dev/null ./check "$PROP" "$TIER" > "$S/out.txt" 2>&1
RC=$?
grep -E "^VIOLATION|^KNOWN|^INCONC" "$S/out.txt" | head -${MUT_LINES:-3} | cut -c1-220
tail -1 "$S/out.txt"
echo "exit=$RC"
rm -rf "$S"
exit $RC
