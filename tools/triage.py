#!/venv/bin/python
"""triage.py PROP [tier] -- run the check with PVM_TRIAGE=1 and print, per failing (op, symptom), the decision
table over the given feature keys: combo -> fails / passes. Used to write tight known-finding predicates."""
import json, os, subprocess, sys, glob, collections
HERE = os.path.abspath(os.path.join(os.path.dirname(__file__), ".."))
prop = sys.argv[1]
tier = sys.argv[2] if len(sys.argv) > 2 else "quick"
env = dict(os.environ, PVM_TRIAGE="1", PVM_KEEP="1", PVM_MAX_KEEP="1000000", PVM_PER_KEY_KEEP="1000000", PVM_EVIDENCE="/dev/null")
subprocess.run([os.path.join(HERE, "check"), prop, tier], env=env, stdout=subprocess.DEVNULL)
dirs = sorted(glob.glob(os.path.join(HERE, "out", "shards", f"{prop}-{tier}-*")), key=os.path.getmtime)
d = dirs[-1]
fails = collections.defaultdict(lambda: collections.Counter())
passes = collections.defaultdict(lambda: collections.Counter())
for f in glob.glob(os.path.join(d, "*.json")):
    r = json.load(open(f))
    for v in r["violations"]:
        fails[v["op"]][(v["symptom"], json.dumps(v["features"], sort_keys=True))] += 1
    for k, n in r.get("passes", {}).items():
        op, feats = k.split("|", 1)
        passes[op][feats] += n
out = {"fails": {op: [[s, json.loads(f), n] for (s, f), n in c.items()] for op, c in fails.items()},
       "passes": {op: [[json.loads(f), n] for f, n in c.items()] for op, c in passes.items()}}
json.dump(out, open(os.path.join(HERE, "out", f"triage-{prop}.json"), "w"))
print("written out/triage-%s.json from %s" % (prop, d))
import shutil; shutil.rmtree(d, ignore_errors=True)
