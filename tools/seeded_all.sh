#!/bin/sh
# Re-validate every kept seeded change and rewrite its meta.json (what it breaks, what was run, which checks caught it).
cd "$(dirname "$0")/.." || exit 2
for d in seeded/C??-[0-9] seeded/C??-[0-9][0-9]; do
  [ -d "$d" ] || continue
  idk=$(basename "$d"); id=${idk%-*}; k=${idk#*-}
  line=$(tools/seedeval.sh "$id" "$k" | grep "^{" | tail -1)
  echo "$line"
  /venv/bin/python - "$d" "$id" "$line" <<'PY'
import json, sys, os, datetime
d, pid, line = sys.argv[1], sys.argv[2], sys.argv[3]
res = json.loads(line)
notes = open(os.path.join(d, "notes.md")).read() if os.path.exists(os.path.join(d, "notes.md")) else ""
meta = {
  "breaks_property": pid,
  "origin": "written by an independent sub-agent that saw only the property text and a private worktree of /repo (nothing from /verif)",
  "needs_to_manifest": notes.strip(),
  "validated": {
    "repository_doctests_with_change": res.get("doctests"),
    "repository_functional_tests_with_change": res.get("functional"),
    "demo_exit_on_clean_tree": res.get("demo_clean_rc"),
    "demo_exit_with_change": res.get("demo_mutant_rc"),
    "how": "tools/seedeval.sh: scratch copy of /repo outside /repo and /verif, demo on clean copy, git-style patch applied, both repository suites, demo again, then ./check <ID> quick with PVM_REPO=<scratch>; scratch removed",
  },
  "checks_run": res.get("checks"),
  "detected_by_quick_check_of_its_property": bool(res.get("checks", {}).get(pid, {}).get("rc") == 1),
}
json.dump(meta, open(os.path.join(d, "meta.json"), "w"), indent=1)
PY
done
