#!/bin/sh
# tools/sweep.sh <tier> <seed...> : run every check for each seed, print one line per (check, seed). Evidence goes to /dev/null unless KEEP_EVIDENCE=1.
TIER=${1:-quick}; shift
SEEDS=${*:-0}
cd "$(dirname "$0")/.." || exit 2
for s in $SEEDS; do
  for p in C01 C02 C03 C04 C05 C06 C07 C08 C09 C10 C11 C12 C13 C14 C15 C16 C17 C18 C19 C20; do
    if [ -n "${KEEP_EVIDENCE:-}" ]; then
      out=$(VERIF_SEED=$s ./check $p $TIER 2>&1); rc=$?
    else
      out=$(VERIF_SEED=$s PVM_EVIDENCE=/dev/null ./check $p $TIER 2>&1); rc=$?
    fi
    echo "rc=$rc $(echo "$out" | tail -1)"
    if [ $rc -ne 0 ]; then echo "$out" | grep -E "^VIOLATION|^INCONC|^  op=" | head -6 | cut -c1-300; fi
  done
done
