#!/bin/sh
# keep_benign.sh <ID> : copy /tmp/wtb/<ID>/_benign/{patch,demo,notes}{1,2} to /verif/benign/<ID>-b{1,2} and evaluate them
ID=$1
for k in 1 2; do
  d=/verif/benign/$ID-b$k
  [ -f /tmp/wtb/$ID/_benign/patch$k.diff ] || continue
  mkdir -p $d; cp /tmp/wtb/$ID/_benign/patch$k.diff $d/patch.diff; cp /tmp/wtb/$ID/_benign/demo$k.py $d/demo.py; cp /tmp/wtb/$ID/_benign/notes$k.md $d/notes.md 2>/dev/null
  /verif/tools/benigneval.sh $ID $k | tail -8
done
