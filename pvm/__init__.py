"""pvm -- pyttb verification monitors (runtime monitoring of sandialabs/pyttb).

Importing this package puts the repository under test ($PVM_REPO, default /repo)
first on sys.path, so that every check imports the *current working tree*.
"""
import os
import sys
import warnings

REPO = os.path.abspath((os.environ.get("PVM_REPO") or "/repo"))
VERIF = os.path.abspath(os.path.join(os.path.dirname(__file__), ".."))
if sys.path[0] != REPO:
    sys.path.insert(0, REPO)
os.environ.setdefault("MPLBACKEND", "Agg")
sys.dont_write_bytecode = True
warnings.simplefilter("ignore")


def load():
    """Import numpy and the pyttb under test; assert it is the requested tree."""
    import numpy as np
    import pyttb as ttb

    where = os.path.abspath(ttb.__file__)
    if not where.startswith(REPO + os.sep):
        raise RuntimeError(f"pyttb imported from {where}, expected under {REPO}")
    np.seterr(all="ignore")
    return np, ttb
