"""Seeded generators, exhaustive enumerators and object builders shared by the property modules."""
import itertools
import zlib

import numpy as np


def rng_for(seed, *keys):
    ks = [int(seed)] + [zlib.crc32(str(k).encode()) for k in keys]
    return np.random.default_rng(ks)


def all_shapes(max_order, sizes, min_order=1, max_cells=None):
    out = []
    for n in range(min_order, max_order + 1):
        for shp in itertools.product(sizes, repeat=n):
            if max_cells is None or int(np.prod(shp)) <= max_cells:
                out.append(tuple(shp))
    return out


def rand_shape(rng, n, lo=1, hi=4):
    return tuple(int(x) for x in rng.integers(lo, hi + 1, size=n))


def distinct_shape(rng, n, lo=2, hi=6):
    """Pairwise distinct mode sizes (tells forward from inverse permutations)."""
    sizes = list(range(lo, max(hi, lo + n) + 1))
    rng.shuffle(sizes)
    return tuple(int(s) for s in sizes[:n])


def ramp(shape, rng=None):
    """Distinct non-zero values (exact in binary) placed in shuffled order."""
    n = int(np.prod(shape))
    v = (np.arange(1, n + 1, dtype=np.float64) * 0.25) + 1.0
    if rng is not None:
        rng.shuffle(v)
    return v.reshape(shape)


def pick(case):
    """A well-mixed 64-bit integer derived from the case's seed.  Variant selectors take residues of *this* (not of the raw seed):
    consecutive cases of one kind have seeds that differ by a fixed stride, and a stride sharing a factor with the number of variants
    would leave some variants unvisited for that kind under every seed."""
    x = (int(case["cseed"]) + 0x9E3779B97F4A7C15) & 0xFFFFFFFFFFFFFFFF
    x = ((x ^ (x >> 30)) * 0xBF58476D1CE4E5B9) & 0xFFFFFFFFFFFFFFFF
    x = ((x ^ (x >> 27)) * 0x94D049BB133111EB) & 0xFFFFFFFFFFFFFFFF
    return x ^ (x >> 31)


def normals(rng, shape):
    return np.round(rng.standard_normal(shape), 6)


def sparsify(rng, A, pattern):
    """pattern: none | one | some | all  (how many entries stay non-zero)."""
    A = np.array(A, dtype=np.float64)
    n = A.size
    flat = A.reshape(-1)
    flat[flat == 0] = 1.5
    if pattern == "all":
        return flat.reshape(A.shape)
    keep = np.zeros(n, dtype=bool)
    if pattern == "one":
        keep[int(rng.integers(0, n))] = True
    elif pattern == "some":
        k = int(rng.integers(1, max(2, n))) if n > 1 else 1
        keep[rng.choice(n, size=min(k, n), replace=False)] = True
    elif pattern == "half-":
        keep[rng.choice(n, size=max(0, (n - 1) // 2), replace=False)] = True
    elif pattern == "half+":
        keep[rng.choice(n, size=min(n, n // 2 + 1), replace=False)] = True
    flat = np.where(keep, flat, 0.0)
    return flat.reshape(A.shape)


def stored_order(rng, nnz, how):
    """Permutation of 0..nnz-1: how = sorted | reversed | shuffled | explicit list."""
    if isinstance(how, (list, tuple)):
        return [int(x) for x in how]
    idx = list(range(nnz))
    if how == "reversed":
        idx.reverse()
    elif how == "shuffled":
        rng.shuffle(idx)
    return [int(i) for i in idx]


def mk_sptensor(ttb, A, order=None, dtype=None, hist=None):
    """Sparse holder of ndarray A with nonzeros stored in the given order (list of positions into
    the C-order argwhere list; None = argwhere order).

    hist = "grown-subs" | "grown-region": the holder is reached through the library's own history instead of the constructor -- a
    smaller tensor on which element-wise operators have already been evaluated (warming anything an object may remember about
    itself) and which is then enlarged by assignment (subscript-array form / element form) up to A."""
    A = np.asarray(A)
    shape = tuple(int(s) for s in A.shape)
    subs = np.argwhere(A != 0)
    if hist and dtype is None and A.ndim >= 1 and A.size and any(s_ > 1 for s_ in shape):
        return _grown_sptensor(ttb, A, shape, subs if order is None or not subs.shape[0] else subs[np.asarray(order, dtype=int)], hist)
    if subs.shape[0] == 0:
        return ttb.sptensor(shape=A.shape)
    if order is not None:
        subs = subs[np.asarray(order, dtype=int)]
    vals = A[tuple(subs.T)].reshape(-1, 1)
    if dtype is not None:
        vals = vals.astype(dtype)
    return ttb.sptensor(subs.astype(int), vals.copy(), shape)


def _grown_sptensor(ttb, A, shape, subs, hist):
    small = tuple(max(1, (s_ + 1) // 2) for s_ in shape)
    inside = np.all(subs < np.array(small), axis=1) if subs.shape[0] else np.zeros(0, dtype=bool)
    vals = A[tuple(subs.T)].reshape(-1, 1).astype(float) if subs.shape[0] else np.zeros((0, 1))
    if inside.any():
        S = ttb.sptensor(subs[inside].astype(int), vals[inside].copy(), small)
    else:
        S = ttb.sptensor(shape=small)
    # operators evaluated before the growth (their results are judged elsewhere)
    S.logical_not()
    S == 0  # noqa: B015
    S != 1.5  # noqa: B015
    S.allsubs()
    rest, restv = subs[~inside].astype(int), vals[~inside]
    corner = [s_ - 1 for s_ in shape]
    if hist == "grown-subs" and len(shape) >= 2:
        if rest.shape[0]:
            S[rest.copy()] = restv.copy()
        if tuple(int(x) for x in S.shape) != shape:
            S[np.array([corner])] = 0.0
    else:
        for sub, v in zip(rest, restv[:, 0]):
            S[tuple(int(x) for x in sub)] = float(v)
        if tuple(int(x) for x in S.shape) != shape:
            S[tuple(corner)] = 0.0
    got = np.zeros(shape)
    if tuple(int(x) for x in S.shape) != shape or (S.nnz and np.asarray(S.subs).shape[1] != len(shape)):
        raise AssertionError(f"growing a sparse tensor by assignment gave shape {S.shape}, want {shape} (C04 territory)")
    if S.nnz:
        got[tuple(np.asarray(S.subs).T)] = np.asarray(S.vals).reshape(-1)
    if not np.array_equal(got, A):
        raise AssertionError("growing a sparse tensor by assignment did not produce the assigned entries (C04 territory)")
    return S


def mk_tensor(ttb, A, hist="ctor"):
    """Dense holder of ndarray A.  hist="grown": the holder is reached through the library's own history -- a smaller tensor enlarged
    by an out-of-range subtensor assignment (which leaves a differently laid-out buffer behind than the constructor does)."""
    A = np.asarray(A)
    if hist != "grown" or A.ndim == 0 or A.size == 0 or all(s == 1 for s in A.shape):
        return ttb.tensor(A.copy())
    small = tuple(slice(0, max(1, (s + 1) // 2)) for s in A.shape)
    T = ttb.tensor(A[small].copy())
    key = tuple(slice(0, int(s)) for s in A.shape)
    T[key] = A.copy()
    if tuple(int(s) for s in T.shape) != tuple(A.shape) or not np.array_equal(np.asarray(T.data), A):
        raise AssertionError("growing a dense tensor by subtensor assignment did not produce the assigned array (C04 territory)")
    return T


def mk_ktensor(ttb, weights, factors):
    return ttb.ktensor([np.array(f, dtype=float) for f in factors], np.array(weights, dtype=float))


def mk_ttensor(ttb, core, factors, sparse_core=False):
    core = np.array(core, dtype=float)
    c = mk_sptensor(ttb, core) if sparse_core else ttb.tensor(core)
    return ttb.ttensor(c, [np.array(f, dtype=float) for f in factors])


def rand_ktensor_parts(rng, shape, R, weights="mixed"):
    fm = [normals(rng, (s, R)) for s in shape]
    if weights == "ones":
        w = np.ones(R)
    elif weights == "positive":
        w = np.round(rng.uniform(0.5, 3.0, R), 6)
    else:
        w = np.round(rng.uniform(0.5, 3.0, R), 6) * rng.choice([-1.0, 1.0], size=R)
        if rng.random() < 0.3:
            w[int(rng.integers(0, R))] = 1.0        # an exact unit weight next to others (a model normalised on one component)
    return w, fm


def structured_factor(rng, n, r):
    """A factor matrix of a recognisable class -- the kinds real models carry and shortcuts key on: a (rectangular) identity block
    (zero-padding / embedding), orthonormal columns (what hosvd / tucker_als / QR return), unit-length but non-orthogonal columns (a
    column-normalised model), a row selector / permutation, or generic values."""
    c = int(rng.integers(0, 10))
    if c == 0:
        return np.eye(n, r), "eye"
    if c == 1 and n >= r:
        q, _ = np.linalg.qr(rng.standard_normal((n, r)))
        return q, "orth"
    if c == 2:
        a = rng.standard_normal((n, r))
        return a / np.linalg.norm(a, axis=0, keepdims=True), "unitcols"
    if c == 3:
        a = np.zeros((n, r))
        a[rng.integers(0, n, size=r), np.arange(r)] = 1.0
        return a, "select"
    return normals(rng, (n, r)), "normal"


def weight_vector(rng, R, signed=True):
    """Kruskal weights of a recognisable class: generic, all one, an exact 1.0 next to other values (a model normalised on one
    component), or one zero weight (a component switched off)."""
    w = np.round(rng.uniform(0.5, 2.0, R), 4)
    if signed:
        w = w * rng.choice([-1.0, 1.0], size=R)
    c = int(rng.integers(0, 8))
    if c == 0:
        w[:] = 1.0
    elif c in (1, 2):
        w[int(rng.integers(0, R))] = 1.0
    elif c == 3 and R >= 2:
        w[int(rng.integers(0, R))] = 0.0
    return w


def rand_ttensor_parts(rng, shape, ranks):
    core = normals(rng, tuple(ranks))
    fm = [structured_factor(rng, s, r)[0] for s, r in zip(shape, ranks)]
    return core, fm


def ordered_partitions(n):
    """All ordered partitions of range(n) into (rdims, cdims), either side may be empty."""
    out = []
    modes = list(range(n))
    for k in range(n + 1):
        for rset in itertools.combinations(modes, k):
            cset = [m for m in modes if m not in rset]
            for r in itertools.permutations(rset):
                for c in itertools.permutations(cset):
                    out.append((list(r), list(c)))
    return out


def nonempty_subsets(n):
    out = []
    for k in range(1, n + 1):
        out += [list(c) for c in itertools.combinations(range(n), k)]
    return out


def take(rng, seq, k):
    """k items of seq without replacement (all if fewer), deterministic under rng."""
    seq = list(seq)
    if len(seq) <= k:
        return seq
    idx = sorted(rng.choice(len(seq), size=k, replace=False).tolist())
    return [seq[i] for i in idx]


def arr(x, dtype=float):
    return np.array(x, dtype=dtype)
