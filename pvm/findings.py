"""Known-finding matcher. known_findings.json is committed and never written at run time."""
import json
import os

from . import VERIF

PATH = os.path.join(VERIF, "known_findings.json")


def load():
    if not os.path.exists(PATH):
        return []
    with open(PATH) as f:
        doc = json.load(f)
    return doc.get("findings", [])


def _match_value(want, got):
    if isinstance(want, dict):
        if "in" in want:
            return got in want["in"]
        if "not" in want:
            return got != want["not"]
        if "ge" in want:
            return got is not None and got >= want["ge"]
        if "le" in want:
            return got is not None and got <= want["le"]
        if "prefix" in want:
            return isinstance(got, str) and got.startswith(want["prefix"])
        if "contains" in want:
            return isinstance(got, str) and want["contains"] in got
        return False
    return want == got


def matches(entry, v):
    """entry: known finding; v: violation record."""
    if entry.get("status", "known") != "known":
        return False
    if entry["property"] != v["property"]:
        return False
    ops = entry["op"] if isinstance(entry["op"], list) else [entry["op"]]
    if v["op"] not in ops:
        return False
    sym = entry["symptom"] if isinstance(entry["symptom"], list) else [entry["symptom"]]
    if not any(v["symptom"] == s or (s.endswith("*") and v["symptom"].startswith(s[:-1])) for s in sym):
        return False
    feats = v.get("features", {})
    for k, want in entry.get("predicate", {}).items():
        if not _match_value(want, feats.get(k)):
            return False
    return True


def classify(violations, entries=None):
    """Split violations into (unlisted, {finding id: [violations]})."""
    entries = load() if entries is None else entries
    unlisted, listed = [], {}
    for v in violations:
        for e in entries:
            if matches(e, v):
                listed.setdefault(e["id"], []).append(v)
                break
        else:
            unlisted.append(v)
    return unlisted, listed
