"""Monitoring context: the client-boundary event log, verdict bookkeeping, MutSan hook.

Every call a workload makes into pyttb goes through Ctx.call(); that is the "depth-0"
boundary: the Call event is counted before invoking, Return/Raise after, and the armed
sanitizers run on exactly those two points.
"""
import hashlib
import json
import os
import traceback
from collections import Counter

import numpy as np

from . import REPO
from .denote import DenoteError, kind
from .mutsan import Snapshot
from .wellformed import wellformed


class CaseAbort(Exception):
    """Raised by Ctx.must() after recording an unexpected raise; ends the case."""


class Outcome:
    __slots__ = ("ok", "value", "exc", "tb")

    def __init__(self, ok, value=None, exc=None, tb=None):
        self.ok, self.value, self.exc, self.tb = ok, value, exc, tb


# operations documented as in place: may change the receiver only
INPLACE = {
    "ktensor.arrange", "ktensor.fixsigns", "ktensor.normalize", "ktensor.redistribute",
    "ktensor.update", "tensor.__setitem__", "sptensor.__setitem__", "tenmat.__setitem__",
    "sptenmat.__setitem__",
}


def jsonable(x):
    if isinstance(x, np.ndarray):
        return x.tolist()
    if isinstance(x, (np.integer,)):
        return int(x)
    if isinstance(x, (np.floating,)):
        return float(x)
    if isinstance(x, (np.bool_,)):
        return bool(x)
    if isinstance(x, dict):
        return {str(k): jsonable(v) for k, v in x.items()}
    if isinstance(x, (list, tuple)):
        return [jsonable(v) for v in x]
    if isinstance(x, slice):
        return {"slice": [x.start, x.stop, x.step]}
    if isinstance(x, complex):
        return {"re": x.real, "im": x.imag}
    return x


def case_sig(case):
    return hashlib.sha1(json.dumps(jsonable(case), sort_keys=True, default=str).encode()).hexdigest()[:16]


def short(x, n=300):
    s = repr(x) if not isinstance(x, str) else x
    s = " ".join(s.split())
    return s if len(s) <= n else s[: n - 3] + "..."


class Ctx:
    def __init__(self, prop, mutsan="off", accept=None):
        self.prop = prop
        self.mutsan = mutsan  # off | mutation | full
        self.accept = accept  # optional predicate(symptom) -> bool
        self.ops = Counter()
        self.branches = Counter()
        self.evals = 0
        self.violations = []
        self.nviol = 0
        self.case = None
        self.case_features = {}
        self.no_alias_check = False  # set per call for copy=False style requests
        self.max_keep = int(os.environ.get("PVM_MAX_KEEP", "20000"))
        self.per_key_keep = int(os.environ.get("PVM_PER_KEY_KEEP", "3"))
        self._per_key = Counter()
        self.triage = bool(os.environ.get("PVM_TRIAGE"))
        self.passes = Counter()

    # ---- bookkeeping -------------------------------------------------------------
    def begin(self, case):
        self.case = case
        self.case_features = {}
        # client-boundary argument typing (opt-in per module, see shard.workload): in such a case every Python int handed to pyttb --
        # bare or inside a tuple / list -- is passed as the NumPy integer that np.argmax, np.arange, a shape tuple ... hand out.
        self.npint = bool(case.get("npint_args"))
        if self.npint:
            self.case_features["npint_args"] = True
        # ... and in a `strided_args` case every ndarray handed to pyttb (bare or inside a list / tuple) is a strided, non-contiguous
        # view with the same values: what an array means does not depend on how its buffer is laid out
        # ... in a `seq_args` case every short one-dimensional integer array (mode lists, permutations, ranks) is passed as the plain
        # list or tuple a caller would write; a form the signature does not admit may be rejected (tagged), an accepted one must behave
        self.seqform = case.get("seq_args")
        if self.seqform:
            self.case_features["seq_args"] = self.seqform
        self.strided = bool(case.get("strided_args"))
        if self.strided:
            self.case_features["strided_args"] = True

    def feat(self, **kw):
        self.case_features.update(kw)

    def tag(self, t):
        self.branches[t] += 1

    def fail(self, op, symptom, detail="", **features):
        if self.accept is not None and not self.accept(symptom):
            return
        self.nviol += 1
        f = dict(self.case_features)
        f.update(features)
        rec = {
            "property": self.prop,
            "op": op,
            "symptom": symptom,
            "features": jsonable(f),
            "detail": short(detail, 600),
            "case": jsonable(self.case),
        }
        # keep a few witnesses per distinct mechanism key, so that a frequent known finding
        # can never crowd an unlisted violation out of the log
        key = (op, symptom, json.dumps(rec["features"], sort_keys=True))
        self._per_key[key] += 1
        if self._per_key[key] <= self.per_key_keep and len(self.violations) < self.max_keep:
            rec["count_key"] = key[2]
            self.violations.append(rec)

    def check(self, cond, op, symptom="WRONG", detail="", **features):
        """One oracle evaluation."""
        self.evals += 1
        if callable(detail) and not cond:
            detail = detail()
        if not cond:
            self.fail(op, symptom, detail, **features)
        elif self.triage:
            f = dict(self.case_features)
            f.update(features)
            self.passes[op + "|" + json.dumps(jsonable(f), sort_keys=True)] += 1
        return bool(cond)

    # ---- the boundary ------------------------------------------------------------
    def call(self, op, fn, *args, _inplace=None, _share_ok=False, **kw):
        """Depth-0 call into pyttb. Returns Outcome; never raises for repo exceptions."""
        self.ops[op] += 1
        snap = None
        if self.mutsan != "off":
            named = {}
            recv = getattr(fn, "__self__", None)
            if recv is not None and not isinstance(recv, type):
                named["self"] = recv
            for i, a in enumerate(args):
                named[f"arg{i}"] = a
            for k, a in kw.items():
                named[f"kw_{k}"] = a
            snap = Snapshot(named)
        orig_args, orig_kw = args, kw
        retyped = False
        if getattr(self, "npint", False):
            args = tuple(_npintify(a) for a in args)
            kw = {k: _npintify(v) for k, v in kw.items()}
            retyped = True
        if getattr(self, "seqform", None):
            args = tuple(_seqify(a, self.seqform) for a in args)
            kw = {k: _seqify(v, self.seqform) for k, v in kw.items()}
            retyped = True
        if getattr(self, "strided", False):
            args = tuple(_stridify(a) for a in args)
            kw = {k: _stridify(v) for k, v in kw.items()}
        try:
            value = fn(*args, **kw)
            out = Outcome(True, value)
        except (KeyboardInterrupt, SystemExit, MemoryError):
            raise
        except BaseException as e:  # noqa: BLE001
            out = Outcome(False, None, e, traceback.format_exc(limit=-6))
            if retyped and isinstance(e, (AssertionError, TypeError, ValueError, IndexError, KeyError, AttributeError)):
                # a NumPy-typed integer / a plain list may be rejected where the signature says `int` / `ndarray`: tagged, and the call is
                # issued again in its original form so that the case loses nothing; what is judged is that an *accepted* call keeps
                # every promise
                self.tag("retyped-args-rejected:" + op)
                try:
                    out = Outcome(True, fn(*orig_args, **orig_kw))
                except (KeyboardInterrupt, SystemExit, MemoryError):
                    raise
                except BaseException as e2:  # noqa: BLE001
                    out = Outcome(False, None, e2, traceback.format_exc(limit=-6))
        if snap is not None:
            self._mutsan_after(op, snap, out, _inplace, _share_ok)
        return out

    def _mutsan_after(self, op, snap, out, inplace, share_ok):
        inplace = (op in INPLACE) if inplace is None else inplace
        self.evals += 1
        for p in snap.changed():
            if inplace and (p.startswith("self.") or p.startswith("self<") or p == "self"):
                continue
            which = p.split(".")[0].split("[")[0].split("<")[0]
            self.fail(op, "MUTATED", f"operand buffer {p} changed across the call" + ("" if out.ok else " (call raised)"),
                      path=_norm_path(p), who=("self" if which == "self" else "arg"), raised=not out.ok)
        if self.mutsan == "full" and out.ok and not share_ok:
            recv = snap.named.get("self")
            if inplace and recv is not None:
                # a documented in-place operation may rebind the receiver's buffers, but never to memory of an argument
                self.evals += 1
                for rp, p, confirmed in snap.overlaps(recv, "self-after"):
                    if p.startswith("self"):
                        continue
                    self.fail(op, "ALIAS", f"receiver buffer {rp} shares memory with argument {p} after the call; poke-confirmed={confirmed}",
                              path=_norm_path(p), rpath=_norm_path(rp), confirmed=bool(confirmed))
            if inplace and out.value is recv:
                return
            self.evals += 1
            for rp, p, confirmed in snap.overlaps(out.value):
                if inplace and p.startswith("self"):
                    continue
                self.fail(op, "ALIAS", f"result buffer {rp} shares memory with operand {p}; poke-confirmed={confirmed}",
                          path=_norm_path(p), rpath=_norm_path(rp), confirmed=bool(confirmed))

    def must(self, op, fn, *args, _features=None, **kw):
        r = self.call(op, fn, *args, **kw)
        if not r.ok:
            feats = _features or {}
            self.evals += 1
            self.fail(op, "RAISE:" + type(r.exc).__name__, f"{type(r.exc).__name__}: {r.exc} | {r.tb}",
                      where=_raise_site(r.exc), **feats)
            raise CaseAbort()
        return r.value

    def structural(self, obj, op, nozero=False, **features):
        """Structural sanitizer on a returned object."""
        self.evals += 1
        probs = wellformed(obj, nozero=nozero)
        for p in probs:
            self.fail(op, "ILLFORMED:" + _illformed_class(p), p, **features)
        return not probs


def _seqify(x, form):
    if isinstance(x, np.ndarray) and x.ndim == 1 and 0 < x.size <= 8 and x.dtype.kind in "iu":
        vals = [int(v) for v in x]
        return vals if form == "list" else tuple(vals)
    return x


def _stridify(x, depth=0):
    if depth > 2:
        return x
    if isinstance(x, np.ndarray) and x.ndim >= 1 and x.size > 0 and x.dtype.kind in "fiub":
        big = np.zeros(tuple(2 * s for s in x.shape), dtype=x.dtype)
        view = big[tuple(slice(1, None, 2) for _ in x.shape)]
        view[...] = x
        return view
    if isinstance(x, tuple):
        return tuple(_stridify(v, depth + 1) for v in x)
    if isinstance(x, list):
        return [_stridify(v, depth + 1) for v in x]
    return x


def _npintify(x, depth=0):
    if isinstance(x, bool) or depth > 3:
        return x
    if isinstance(x, int):
        return np.int64(x)
    if isinstance(x, tuple):
        return tuple(_npintify(v, depth + 1) for v in x)
    if isinstance(x, list):
        return [_npintify(v, depth + 1) for v in x]
    return x


def _norm_path(p):
    import re

    return re.sub(r"\[\d+\]", "[*]", p)


def _illformed_class(p):
    for key in ("vals-rows!=subs-rows", "duplicate", "outside", "explicit zero", "dtype", "nnz reports",
                "shape", "partition"):
        if key in p:
            return key.replace(" ", "-")
    return "other"


def _raise_site(exc):
    """Innermost function of the repository in the traceback (mechanism key, no line numbers)."""
    tb = exc.__traceback__
    site = None
    while tb is not None:
        fn = tb.tb_frame.f_code.co_filename
        if fn.startswith(REPO):
            site = getattr(tb.tb_frame.f_code, "co_qualname", tb.tb_frame.f_code.co_name)
        tb = tb.tb_next
    return site or "?"


def run_one(mod, ctx, case):
    """Run one case under ctx, converting oracle crashes to recorded events."""
    ctx.begin(case)
    seed = case.get("gseed")
    np.random.seed(0 if seed is None else int(seed))
    try:
        mod.run_case(case, ctx)
    except CaseAbort:
        pass
    except DenoteError as e:
        ctx.evals += 1
        ctx.fail(case.get("op", case.get("w", "?")), "ILLFORMED:denote", str(e))
    except (KeyboardInterrupt, SystemExit, MemoryError):
        raise
    except BaseException as e:  # noqa: BLE001
        ctx.evals += 1
        ctx.fail(case.get("op", case.get("w", "?")), "ORACLE-CRASH:" + type(e).__name__,
                 traceback.format_exc(limit=-5))


def kinds_of(*objs):
    return [kind(o) for o in objs]
