"""Denotation oracle: map any pyttb object to the N-way ndarray it stands for.

Reads raw state only (slots), never calls a pyttb method.  Index arithmetic is
written out explicitly (first index varies fastest) so that the oracle does not
share an F/C-order convention with the code under test.
"""
import numpy as np


class DenoteError(Exception):
    """The object's raw state does not denote an array (ill-formed)."""


def kind(obj):
    """Short kind name used in event logs and finding keys."""
    if obj is None:
        return "None"
    if isinstance(obj, (bool, np.bool_)):
        return "bool"
    if isinstance(obj, (int, float, complex, np.integer, np.floating, np.complexfloating)):
        return "scalar"
    if isinstance(obj, np.ndarray):
        return "ndarray"
    if isinstance(obj, (list, tuple)):
        return "list"
    n = type(obj).__name__
    return n


def _shape_tuple(shape):
    try:
        t = tuple(int(s) for s in shape)
    except Exception as e:  # noqa: BLE001
        raise DenoteError(f"shape {shape!r} is not a tuple of ints") from e
    for s, o in zip(t, shape):
        if s != o or s < 0:
            raise DenoteError(f"shape {shape!r} has a non-integer or negative extent")
    return t


def sparse_nnz(obj):
    """Number of stored entries according to raw state."""
    subs = obj.subs
    if subs is None or getattr(subs, "size", 0) == 0:
        return 0
    return int(subs.shape[0])


def _scatter(shape, subs, vals, what):
    shape = _shape_tuple(shape)
    vals = np.asarray(vals)
    subs = np.asarray(subs)
    if subs.size == 0:
        if vals.size != 0 and len(shape) > 0:
            raise DenoteError(f"{what}: no subscripts but {vals.size} values")
        dt = vals.dtype if vals.dtype.kind in "biufc" else np.float64
        return np.zeros(shape, dtype=dt)
    if subs.ndim != 2 or subs.shape[1] != len(shape):
        raise DenoteError(f"{what}: subs has shape {subs.shape} for {len(shape)} modes")
    if subs.dtype.kind not in "iu":
        if not np.all(subs == np.floor(subs)):
            raise DenoteError(f"{what}: non-integer subscripts")
    n = subs.shape[0]
    if vals.size != n:
        raise DenoteError(f"{what}: {n} subscripts but {vals.size} values (vals shape {vals.shape})")
    vals = vals.reshape(n)
    isubs = subs.astype(np.int64)
    if (isubs < 0).any() or (isubs >= np.array(shape, dtype=np.int64)).any():
        raise DenoteError(f"{what}: subscript outside shape {shape}")
    seen = set()
    out = np.zeros(shape, dtype=vals.dtype if vals.dtype.kind in "biufc" else np.float64)
    for r in range(n):
        key = tuple(int(x) for x in isubs[r])
        if key in seen:
            raise DenoteError(f"{what}: duplicate subscript {key}")
        seen.add(key)
        out[key] = vals[r]
    return out


def _unravel_first_fastest(idx, sizes):
    """Explicit linear index -> subscripts, first subscript varies fastest."""
    idx = np.asarray(idx, dtype=np.int64)
    cols = []
    rem = idx.copy()
    for s in sizes:
        cols.append(rem % s)
        rem = rem // s
    if len(sizes) == 0:
        return np.zeros((idx.shape[0], 0), dtype=np.int64), rem
    return np.stack(cols, axis=1), rem


def matricized_index(shape, dims):
    """For every multi-index of `shape` (as np.indices grid), linear index over `dims`.

    index = sum_k i[dims[k]] * prod_{j<k} shape[dims[j]]  (first listed mode fastest).
    """
    grid = np.indices(shape) if len(shape) else np.zeros((0,), dtype=np.int64)
    out = np.zeros(shape, dtype=np.int64)
    mult = 1
    for d in dims:
        out = out + grid[d] * mult
        mult *= shape[d]
    return out, mult


def denote(obj):
    """Return the ndarray denoted by `obj` (a fresh array)."""
    k = kind(obj)
    if k in ("scalar", "bool"):
        return np.asarray(obj)
    if k == "ndarray":
        return np.array(obj)
    if k == "tensor":
        shape = _shape_tuple(obj.shape)
        data = obj.data
        if not isinstance(data, np.ndarray):
            raise DenoteError("tensor.data is not an ndarray")
        if tuple(data.shape) != shape:
            raise DenoteError(f"tensor.data.shape {data.shape} != shape {shape}")
        return np.array(data)
    if k == "sptensor":
        return _scatter(obj.shape, obj.subs, obj.vals, "sptensor")
    if k == "ktensor":
        w = np.asarray(obj.weights)
        fm = list(obj.factor_matrices)
        if w.ndim != 1:
            raise DenoteError(f"ktensor.weights has shape {w.shape}")
        R = w.shape[0]
        for i, f in enumerate(fm):
            if not isinstance(f, np.ndarray) or f.ndim != 2 or f.shape[1] != R:
                raise DenoteError(f"ktensor factor {i} has shape {getattr(f, 'shape', None)} for rank {R}")
        if len(fm) == 0:
            raise DenoteError("ktensor without factors")
        if len(fm) > 20:
            raise DenoteError("too many modes")
        letters = "abcdefghijklmnopqrst"
        expr = "z," + ",".join(letters[i] + "z" for i in range(len(fm))) + "->" + letters[: len(fm)]
        return np.einsum(expr, w.astype(np.result_type(w.dtype, np.float64)), *fm)
    if k == "ttensor":
        core = denote(obj.core)
        fm = list(obj.factor_matrices)
        if core.ndim != len(fm):
            raise DenoteError(f"ttensor core has {core.ndim} modes but {len(fm)} factors")
        out = core.astype(np.result_type(core.dtype, np.float64))
        for n, f in enumerate(fm):
            if hasattr(f, "toarray") and hasattr(f, "tocoo"):
                f = np.asarray(f.toarray())          # a SciPy sparse factor matrix (the constructor accepts them) denotes its dense form
            if not isinstance(f, np.ndarray) or f.ndim != 2 or f.shape[1] != out.shape[n]:
                raise DenoteError(f"ttensor factor {n} shape {getattr(f, 'shape', None)} vs core {core.shape}")
            out = np.moveaxis(np.tensordot(f, out, axes=(1, n)), 0, n)
        return out
    if k == "sumtensor":
        parts = list(obj.parts)
        if not parts:
            raise DenoteError("empty sumtensor")
        out = None
        for p in parts:
            d = denote(p).astype(np.float64)
            if out is None:
                out = d
            else:
                if out.shape != d.shape:
                    raise DenoteError("sumtensor parts of different shapes")
                out = out + d
        return out
    if k == "tenmat":
        tshape = _shape_tuple(obj.tshape)
        r = [int(x) for x in np.asarray(obj.rindices).reshape(-1)]
        c = [int(x) for x in np.asarray(obj.cindices).reshape(-1)]
        if sorted(r + c) != list(range(len(tshape))):
            raise DenoteError(f"tenmat rindices {r} / cindices {c} do not partition {len(tshape)} modes")
        data = np.asarray(obj.data)
        ri, nr = matricized_index(tshape, r)
        ci, nc = matricized_index(tshape, c)
        if data.ndim != 2 or data.shape != (nr, nc):
            raise DenoteError(f"tenmat.data.shape {data.shape} != ({nr}, {nc}) for tshape {tshape} r={r} c={c}")
        return np.array(data[ri, ci]).reshape(tshape)
    if k == "sptenmat":
        tshape = _shape_tuple(obj.tshape)
        r = [int(x) for x in np.asarray(obj.rdims).reshape(-1)]
        c = [int(x) for x in np.asarray(obj.cdims).reshape(-1)]
        if sorted(r + c) != list(range(len(tshape))):
            raise DenoteError(f"sptenmat rdims {r} / cdims {c} do not partition {len(tshape)} modes")
        nr = int(np.prod([tshape[d] for d in r])) if r else 1
        nc = int(np.prod([tshape[d] for d in c])) if c else 1
        m = _scatter((nr, nc), obj.subs, obj.vals, "sptenmat")
        ri, _ = matricized_index(tshape, r)
        ci, _ = matricized_index(tshape, c)
        return np.array(m[ri, ci]).reshape(tshape)
    if k == "coo_matrix" or hasattr(obj, "toarray"):
        return np.asarray(obj.toarray())
    raise DenoteError(f"cannot denote object of type {type(obj).__name__}")


def denote_matrix(obj):
    """The 2-D matrix a tenmat / sptenmat / scipy sparse matrix holds."""
    k = kind(obj)
    if k == "tenmat":
        return np.array(obj.data)
    if k == "sptenmat":
        tshape = _shape_tuple(obj.tshape)
        r = [int(x) for x in np.asarray(obj.rdims).reshape(-1)]
        c = [int(x) for x in np.asarray(obj.cdims).reshape(-1)]
        nr = int(np.prod([tshape[d] for d in r])) if r else 1
        nc = int(np.prod([tshape[d] for d in c])) if c else 1
        return _scatter((nr, nc), obj.subs, obj.vals, "sptenmat")
    if hasattr(obj, "toarray"):
        return np.asarray(obj.toarray())
    return np.asarray(obj)


def reference_matricize(A, rdims, cdims):
    """Matricization of ndarray A by the explicit index formula."""
    shape = A.shape
    ri, nr = matricized_index(shape, list(rdims))
    ci, nc = matricized_index(shape, list(cdims))
    M = np.zeros((nr, nc), dtype=A.dtype)
    M[ri, ci] = A
    return M


def same(a, b, rtol=0.0, atol=0.0):
    """Exact (NaN==NaN, signed inf) or toleranced equality of two arrays."""
    a = np.asarray(a)
    b = np.asarray(b)
    if a.shape != b.shape:
        return False
    if a.dtype.kind == "O" or b.dtype.kind == "O":
        return False
    if rtol == 0.0 and atol == 0.0:
        return _eq_nan(a, b)
    a = a.astype(np.result_type(a.dtype, np.float64))
    b = b.astype(np.result_type(b.dtype, np.float64))
    fin = np.isfinite(a) & np.isfinite(b)
    if not np.array_equal(np.isnan(a), np.isnan(b)):
        return False
    inf = ~fin & ~np.isnan(a)
    if not np.array_equal(a[inf], b[inf]):
        return False
    if not fin.any():
        return True
    return bool(np.all(np.abs(a[fin] - b[fin]) <= atol + rtol * np.abs(b[fin])))


def _eq_nan(a, b):
    try:
        a = a.astype(np.result_type(a.dtype, np.float64))
        b = b.astype(np.result_type(b.dtype, np.float64))
    except Exception:  # noqa: BLE001
        return False
    return bool(np.all((a == b) | (np.isnan(a) & np.isnan(b))))


def close(a, b, scale=None, tol=1e-10):
    """Kernel tolerance: |a-b| <= tol * max(scale, |b|_max, 1e-300)."""
    a = np.asarray(a, dtype=np.result_type(np.asarray(a).dtype, np.float64))
    b = np.asarray(b, dtype=np.result_type(np.asarray(b).dtype, np.float64))
    if a.shape != b.shape:
        return False
    if a.size == 0:
        return True
    fa, fb = np.isfinite(a), np.isfinite(b)
    if not (np.all(fa) and np.all(fb)):
        # non-finite entries must coincide exactly (same infinity / NaN at the same positions); the finite rest is compared as usual
        if not np.array_equal(fa, fb) or not same(np.where(fa, 0.0, a), np.where(fb, 0.0, b)):
            return False
        if not fa.any():
            return True
        a, b = np.where(fa, a, 0.0), np.where(fb, b, 0.0)
    s = float(np.max(np.abs(b))) if scale is None else float(scale)
    s = max(s, float(np.max(np.abs(b))), 1e-300)
    return bool(np.max(np.abs(a - b)) <= tol * s)
