"""One shard of one check: runs every nshards-th case of a property's workload."""
import importlib
import json
import sys
import time

from . import load
from . import linecov
from .core import Ctx, case_sig, jsonable, run_one


def arm_emptysan(np):
    """EmptySan: np.empty / np.empty_like hand out poisoned storage (NaN / sentinel) instead of stale memory."""
    orig_empty, orig_like = np.empty, np.empty_like

    def poison(a):
        k = a.dtype.kind
        if k in "fc":
            a.fill(np.nan)
        elif k in "iu":
            a.fill(np.iinfo(a.dtype).min + 11 if k == "i" else np.iinfo(a.dtype).max - 11)
        elif k == "b":
            a.fill(True)
        return a

    def empty(*a, **k):
        return poison(orig_empty(*a, **k))

    def empty_like(*a, **k):
        return poison(orig_like(*a, **k))

    np.empty, np.empty_like = empty, empty_like


def workload(mod, tier, seed):
    """The case stream of one check.  The thorough tier repeats the module's thorough generator under THOROUGH_PASSES derived seeds:
    the random parts of every generator (shapes, values, option draws, histories) are new in each pass, the exhaustive parts are
    re-run with new values.  Deterministic, so every shard sees the same stream."""
    npint = bool(getattr(mod, "NPINT_ARGS", False))
    strided = bool(getattr(mod, "STRIDED_ARGS", False))
    seqargs = bool(getattr(mod, "SEQ_ARGS", False))

    def stream():
        yield from mod.gen_cases(tier, seed)
        if tier == "thorough":
            for sub in range(1, int(getattr(mod, "THOROUGH_PASSES", 6))):
                yield from mod.gen_cases(tier, int(seed) + 7919 * sub)
    from .gen import pick

    for i, case in enumerate(stream()):
        # the argument form of a case is drawn from a mixed hash of its position (not position modulo 4 / 8: a generator that emits its
        # kinds of case with a period sharing a factor with 4 would give some kind the same form under every seed)
        h = pick({"cseed": i * 1000003 + int(seed)}) % 8
        if npint and h in (3, 7):
            case["npint_args"] = True          # see core.Ctx.begin
        if strided and h in (1, 5):
            case["strided_args"] = True
        if seqargs and h in (2, 6):
            case["seq_args"] = "list" if h == 2 else "tuple"
        yield case


def run_shard(prop, tier, seed, shard, nshards):
    np, ttb = load()
    import os

    emptysan = bool(os.environ.get("PVM_EMPTYSAN")) or tier == "thorough"
    if emptysan:
        arm_emptysan(np)
    mod = importlib.import_module(f"pvm.props.{prop.lower()}")
    ctx = Ctx(prop, mutsan=getattr(mod, "MUTSAN", "off"))
    if hasattr(mod, "pvm_setup"):
        mod.pvm_setup(ctx)
    linecov.start()
    t0 = time.time()
    ncases = 0
    sigs = set()
    samples = []
    per_w = {}
    nontrivial = getattr(mod, "nontrivial", lambda c: True)
    for idx, case in enumerate(workload(mod, tier, seed)):
        if idx % nshards != shard:
            continue
        ncases += 1
        w = case.get("w", "?")
        per_w[w] = per_w.get(w, 0) + 1
        before = ctx.nviol
        run_one(mod, ctx, case)
        if nontrivial(case):
            sigs.add(case_sig(case))
        if len(samples) < 2 or (per_w[w] == 1 and len(samples) < 12):
            samples.append(jsonable(case))
    linecov.stop()
    return {
        "prop": prop, "tier": tier, "seed": seed, "shard": shard, "nshards": nshards,
        "cases": ncases, "sigs": sorted(sigs), "evals": ctx.evals,
        "ops": dict(ctx.ops), "branches": dict(ctx.branches), "workloads": per_w,
        "violations": ctx.violations, "nviol": ctx.nviol, "samples": samples,
        "cov": linecov.report(), "wall": time.time() - t0, "emptysan": emptysan, "passes": dict(ctx.passes),
    }


def main(argv):
    prop, tier, seed, shard, nshards, out = argv[0], argv[1], int(argv[2]), int(argv[3]), int(argv[4]), argv[5]
    res = run_shard(prop, tier, seed, shard, nshards)
    with open(out, "w") as f:
        json.dump(res, f)


if __name__ == "__main__":
    main(sys.argv[1:])
