"""Shard scheduler, aggregation, known-finding classification, evidence and verdict."""
import hashlib
import importlib
import json
import os
import shutil
import subprocess
import sys
import time

from . import REPO, VERIF
from . import findings as findings_mod

PY = sys.executable
OUT = os.environ.get("PVM_OUT") or os.path.join(VERIF, "out")   # PVM_OUT: scratch evaluations (tools/seedeval.sh, mutant.sh) keep their replays apart


def _env():
    env = dict(os.environ)
    env["PYTHONHASHSEED"] = "0"
    env["PVM_REPO"] = REPO
    env["PYTHONDONTWRITEBYTECODE"] = "1"
    env["MPLBACKEND"] = "Agg"
    env["OMP_NUM_THREADS"] = "1"
    env["OPENBLAS_NUM_THREADS"] = "1"
    env["MKL_NUM_THREADS"] = "1"
    env["PVM_MONITOR"] = "1"
    return env


def run_check(prop, tier, seed):
    t0 = time.time()
    mod = importlib.import_module(f"pvm.props.{prop.lower()}")
    nshards = int(os.environ.get("PVM_SHARDS", getattr(mod, "SHARDS", {}).get(tier, 16)))
    watchdog = getattr(mod, "WATCHDOG", {}).get(tier, 900 if tier == "quick" else 3600)
    shutil.rmtree(os.path.join(OUT, "replays", prop), ignore_errors=True)
    sdir = os.path.join(OUT, "shards", f"{prop}-{tier}-{seed}-{os.getpid()}")
    os.makedirs(sdir, exist_ok=True)
    procs = []
    for s in range(nshards):
        outf = os.path.join(sdir, f"{s}.json")
        logf = open(os.path.join(sdir, f"{s}.log"), "w")
        p = subprocess.Popen([PY, "-B", "-m", "pvm.shard", prop, tier, str(seed), str(s), str(nshards), outf],
                             cwd=VERIF, env=_env(), stdout=logf, stderr=subprocess.STDOUT)
        procs.append((s, p, outf, logf))
    results, inconclusive = [], []
    deadline = t0 + watchdog
    for s, p, outf, logf in procs:
        try:
            rc = p.wait(timeout=max(1.0, deadline - time.time()))
        except subprocess.TimeoutExpired:
            p.kill()
            p.wait()
            inconclusive.append(f"shard {s}: watchdog ({watchdog}s) fired")
            logf.close()
            continue
        logf.close()
        if rc != 0 or not os.path.exists(outf):
            tail = open(os.path.join(sdir, f"{s}.log")).read()[-1500:]
            inconclusive.append(f"shard {s}: exited {rc}: {tail}")
            continue
        with open(outf) as f:
            results.append(json.load(f))
    verdict = finish(mod, prop, tier, seed, results, inconclusive, time.time() - t0)
    if verdict == 0 and not os.environ.get("PVM_KEEP"):
        shutil.rmtree(sdir, ignore_errors=True)
    return verdict


def finish(mod, prop, tier, seed, results, inconclusive, wall):
    ops, branches, workloads = {}, {}, {}
    sigs, samples, violations = set(), [], []
    funcs = set()
    evals = cases = nviol = nlines = 0
    for r in results:
        for k, v in r["ops"].items():
            ops[k] = ops.get(k, 0) + v
        for k, v in r["branches"].items():
            branches[k] = branches.get(k, 0) + v
        for k, v in r["workloads"].items():
            workloads[k] = workloads.get(k, 0) + v
        sigs.update(r["sigs"])
        evals += r["evals"]
        cases += r["cases"]
        nviol += r["nviol"]
        violations += r["violations"]
        funcs.update(r["cov"]["functions"])
        nlines = max(nlines, r["cov"]["n_lines"])
        for s in r["samples"]:
            if len(samples) < 8 and (len(samples) < 3 or s.get("w") not in {x.get("w") for x in samples}):
                samples.append(s)
    anchors = list(getattr(mod, "ANCHORS", []))
    missing = [a for a in anchors if a not in funcs]
    if results and missing:
        inconclusive.append("anchor functions never entered: " + ", ".join(missing))
    if results and evals == 0:
        inconclusive.append("no oracle evaluation happened")
    need_ops = getattr(mod, "REQUIRED_OPS", [])
    zero = [o for o in need_ops if ops.get(o, 0) == 0]
    if results and zero:
        inconclusive.append("deciding operations with zero depth-0 calls: " + ", ".join(zero))

    unlisted, listed = findings_mod.classify(violations)
    entries = {e["id"]: e for e in findings_mod.load()}
    for fid in sorted(listed):
        print(f"KNOWN-FINDING: property={prop} {fid}: {entries[fid]['what_fails']} (seen {len(listed[fid])}x)")
    replay_paths = []
    seen_keys = set()
    for v in unlisted:
        key = (v["op"], v["symptom"], json.dumps(v["features"], sort_keys=True))
        if key in seen_keys:
            continue
        seen_keys.add(key)
        if len(replay_paths) >= 25:
            break
        rdir = os.path.join(OUT, "replays", prop)
        os.makedirs(rdir, exist_ok=True)
        h = hashlib.sha1(json.dumps(v, sort_keys=True, default=str).encode()).hexdigest()[:12]
        path = os.path.join(rdir, h + ".json")
        with open(path, "w") as f:
            json.dump({"property": prop, "tier": tier, "seed": seed, "violation": v, "case": v["case"]}, f, indent=1)
        replay_paths.append(path)
        print(f"VIOLATION property={prop} replay={path}")
        print(f"  op={v['op']} symptom={v['symptom']} features={json.dumps(v['features'], sort_keys=True)}")
        print(f"  {v['detail'][:400]}")
    _write_summary(prop, unlisted)
    for msg in inconclusive:
        print(f"INCONCLUSIVE: property={prop} " + " ".join(msg[-700:].split()))

    n_unlisted_total = len(unlisted)
    ev = {
        "property_id": prop,
        "tier": tier,
        "seed": int(seed),
        "level": "exploration",
        "coverage": {
            "evaluations": int(evals),
            "distinct_nontrivial": len(sigs),
            "rule": getattr(mod, "RULE", ""),
            "samples": samples,
            "cases": cases,
            "workloads": workloads,
            "ops": ops,
            "branches": branches,
            "anchors": {"listed": len(anchors), "reached": len(anchors) - len(missing), "missing": missing},
            "repo_functions_entered": len(funcs),
            "repo_lines_hit_max_shard": nlines,
            "exhaustive_subspaces": getattr(mod, "EXHAUSTIVE", {}).get(tier, {}),
            "known_findings_seen": {k: len(v) for k, v in listed.items()},
            "violation_events_total": nviol,
            "unlisted_violation_events": n_unlisted_total,
            "inconclusive_reasons": inconclusive,
            "shards": len(results),
            "emptysan_shards": sum(1 for r in results if r.get("emptysan")),
            "exhaustive": False,
        },
        "assumptions": getattr(mod, "ASSUMPTIONS", []) + [
            "NumPy einsum/tensordot/transpose and the explicit index arithmetic in pvm/denote.py, pvm/refops.py are the trusted base",
            "only executions produced by this run are decided: held on what was observed, not verified",
        ],
        "wall_s": round(wall, 2),
        "violations": n_unlisted_total,
        "repo": REPO,
    }
    os.makedirs(os.path.join(VERIF, "evidence"), exist_ok=True)
    evpath = os.environ.get("PVM_EVIDENCE", os.path.join(VERIF, "evidence", f"{prop}.json"))
    with open(evpath, "w") as f:
        json.dump(ev, f, indent=1, default=str)
    print(f"{prop} {tier} seed={seed}: cases={cases} evaluations={evals} distinct={len(sigs)} "
          f"known={sum(len(v) for v in listed.values())} unlisted={n_unlisted_total} "
          f"inconclusive={len(inconclusive)} wall={wall:.1f}s")
    if unlisted:
        return 1
    if inconclusive:
        return 2
    return 0


def _write_summary(prop, unlisted):
    """Group unlisted violations by (op, symptom) with the value sets of each feature (for triage)."""
    groups = {}
    for v in unlisted:
        g = groups.setdefault((v["op"], v["symptom"]), {"n": 0, "features": {}, "example": v["detail"][:300]})
        g["n"] += 1
        for k, val in v["features"].items():
            g["features"].setdefault(k, set()).add(json.dumps(val))
    os.makedirs(os.path.join(OUT, "summary"), exist_ok=True)
    with open(os.path.join(OUT, "summary", prop + ".txt"), "w") as f:
        for (op, sym), g in sorted(groups.items()):
            f.write(f"{op} | {sym} | n={g['n']}\n")
            for k, vals in sorted(g["features"].items()):
                f.write(f"    {k}: {sorted(vals)[:12]}\n")
            f.write(f"    e.g. {g['example']}\n")


def replay(prop, path):
    from . import load
    from .core import Ctx, run_one

    load()
    mod = importlib.import_module(f"pvm.props.{prop.lower()}")
    with open(path) as f:
        doc = json.load(f)
    ctx = Ctx(prop, mutsan=getattr(mod, "MUTSAN", "off"))
    if hasattr(mod, "pvm_setup"):
        mod.pvm_setup(ctx)
    run_one(mod, ctx, doc["case"])
    unlisted, listed = findings_mod.classify(ctx.violations)
    for v in ctx.violations:
        print(json.dumps({k: v[k] for k in ("op", "symptom", "features", "detail")}, indent=1))
    entries = {e["id"]: e for e in findings_mod.load()}
    for fid in listed:
        print(f"KNOWN-FINDING: property={prop} {fid}: {entries[fid]['what_fails']}")
    if unlisted:
        print(f"VIOLATION property={prop} replay={path}")
        return 1
    print("replay: no unlisted violation on this tree")
    return 0
