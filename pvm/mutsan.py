"""MutSan: operand-mutation and result-aliasing sanitizer.

snapshot -> call -> (a) digests of operand buffers unchanged, (b) no buffer reachable
from the result shares memory with an operand buffer, (c) an overlap is confirmed by
poking: write through one side, watch the other side's digest change, restore.
"""
import hashlib

import numpy as np

_SLOTS = (
    "data", "shape", "subs", "vals", "weights", "factor_matrices", "core", "parts",
    "tshape", "rindices", "cindices", "rdims", "cdims",
)
_PYTTB = ("tensor", "sptensor", "ktensor", "ttensor", "sumtensor", "tenmat", "sptenmat")


def collect(obj, path="", out=None, seen=None, depth=0):
    """All ndarrays reachable from obj as [(path, array)]."""
    if out is None:
        out, seen = [], set()
    if obj is None or depth > 6:
        return out
    if isinstance(obj, np.ndarray):
        if id(obj) not in seen:
            seen.add(id(obj))
            out.append((path or "<array>", obj))
        return out
    if isinstance(obj, (str, bytes, int, float, complex, bool, np.generic)):
        return out
    if id(obj) in seen:
        return out
    seen.add(id(obj))
    tname = type(obj).__name__
    if tname in _PYTTB:
        for s in _SLOTS:
            if hasattr(obj, s):
                try:
                    v = object.__getattribute__(obj, s)
                except Exception:  # noqa: BLE001
                    continue
                if callable(v) and not isinstance(v, np.ndarray):
                    continue
                collect(v, f"{path}.{s}", out, seen, depth + 1)
        return out
    if isinstance(obj, (list, tuple)):
        for i, v in enumerate(obj):
            collect(v, f"{path}[{i}]", out, seen, depth + 1)
        return out
    if isinstance(obj, dict):
        for k, v in obj.items():
            collect(v, f"{path}[{k!r}]", out, seen, depth + 1)
        return out
    if hasattr(obj, "tocoo") and hasattr(obj, "data"):
        for s in ("data", "row", "col", "indices", "indptr"):
            if hasattr(obj, s):
                collect(getattr(obj, s), f"{path}.{s}", out, seen, depth + 1)
        return out
    if tname in ("Figure", "Axes"):
        return out
    return out


def digest(a):
    h = hashlib.sha1()
    h.update(repr((a.shape, a.dtype.str)).encode())
    if a.dtype.kind == "O":
        h.update(repr(a.tolist()).encode())
    else:
        h.update(np.ascontiguousarray(a).tobytes())
    return h.hexdigest()


def state_digest(obj):
    """Digest of everything denotable about obj (arrays + shape metadata)."""
    h = hashlib.sha1()
    for p, a in collect(obj, "x"):
        h.update(p.encode())
        h.update(digest(a).encode())
    for s in ("shape", "tshape"):
        if type(obj).__name__ in _PYTTB and hasattr(obj, s):
            try:
                h.update(repr(tuple(getattr(obj, s))).encode())
            except Exception:  # noqa: BLE001
                pass
    return h.hexdigest()


class Snapshot:
    def __init__(self, named):
        """named: dict name -> object (receiver and arguments)."""
        self.entries = []
        seen = set()
        for name, o in named.items():
            for p, a in collect(o, name):
                if id(a) in seen:
                    continue
                seen.add(id(a))
                self.entries.append((p, a, digest(a)))
        self.meta = {n: self._meta(o) for n, o in named.items()}
        self.named = named

    @staticmethod
    def _meta(o):
        if type(o).__name__ in _PYTTB:
            out = []
            for s in ("shape", "tshape"):
                try:
                    out.append((s, tuple(getattr(o, s))))
                except Exception:  # noqa: BLE001
                    pass
            return out
        return None

    def changed(self):
        """Paths whose buffer bytes (or shape metadata) differ from the snapshot."""
        out = [p for p, a, d in self.entries if digest(a) != d]
        for n, o in self.named.items():
            if self._meta(o) != self.meta[n]:
                out.append(n + ".<shape>")
        # also: an operand object whose slot now points to a different array
        seen = {id(a) for _, a, _ in self.entries}
        for name, o in self.named.items():
            for p, a in collect(o, name):
                if id(a) not in seen and a.size > 0:
                    out.append(p + "<rebound>")
        return out

    def overlaps(self, result, result_name="result"):
        """[(result path, operand path, confirmed-by-poke)] for shared memory."""
        found = []
        for rp, ra in collect(result, result_name):
            if ra.size == 0:
                continue
            for p, a, _ in self.entries:
                if a.size == 0:
                    continue
                if ra is a or (np.may_share_memory(ra, a) and np.shares_memory(ra, a)):
                    found.append((rp, p, poke(ra, a)))
        return found


def poke(ra, a):
    """Write through ra, observe a change (and restore). True when the write is visible."""
    if ra is a:
        return True
    if not ra.flags.writeable:
        try:
            ra.flags.writeable = True
        except Exception:  # noqa: BLE001
            return False
    before = digest(a)
    saved = ra.copy()
    try:
        if ra.dtype.kind == "b":
            ra[...] = ~saved
        elif ra.dtype.kind in "iuf":
            ra[...] = saved + 1
        elif ra.dtype.kind == "c":
            ra[...] = saved + 1
        else:
            return False
        seen = digest(a) != before
    finally:
        ra[...] = saved
    return seen
