"""Reference semantics: each operation as a sum over indices of the denoted arrays.

Trusted base: numpy einsum / tensordot / transpose / fancy indexing and the explicit
first-index-fastest arithmetic below (cross-checked against nested Python loops in selftest).
"""
import itertools

import numpy as np

LETTERS = "abcdefghijklmnopqrstuvwxy"


# ---------------------------------------------------------------- index arithmetic -----
def lin_ff(multi, shape):
    """Linear index, first subscript fastest: sum_k i_k prod_{j<k} I_j (multi: tuple of arrays/ints)."""
    out = 0
    mult = 1
    for i, s in zip(multi, shape):
        out = out + np.asarray(i) * mult
        mult *= s
    return out


def unlin_ff(lin, shape):
    lin = np.asarray(lin)
    out = []
    rem = lin
    for s in shape:
        out.append(rem % s)
        rem = rem // s
    return tuple(out)


def reshape_ff(A, new_shape):
    """First-index-fastest reshape by explicit index arithmetic."""
    A = np.asarray(A)
    new_shape = tuple(int(s) for s in new_shape)
    out = np.zeros(new_shape, dtype=A.dtype)
    if A.size == 0:
        return out
    grid = np.indices(A.shape) if A.ndim else ()
    lin = lin_ff(tuple(grid), A.shape) if A.ndim else np.zeros((), dtype=int)
    out[unlin_ff(lin, new_shape)] = A
    return out


def partial_reshape_ff(A, new_shape, old_modes):
    """sptensor.reshape(new_shape, old_modes): kept modes first (ascending), reshaped modes after."""
    A = np.asarray(A)
    N = A.ndim
    old = [int(m) for m in old_modes]
    keep = [m for m in range(N) if m not in old]
    new_shape = tuple(int(s) for s in new_shape)
    out_shape = tuple(A.shape[m] for m in keep) + new_shape
    out = np.zeros(out_shape, dtype=A.dtype)
    grid = np.indices(A.shape)
    lin = lin_ff(tuple(grid[m] for m in old), tuple(A.shape[m] for m in old))
    new = unlin_ff(lin, new_shape)
    out[tuple(grid[m] for m in keep) + tuple(new)] = A
    return out


def loops_reshape_ff(A, new_shape):
    """Nested-loop cross-check of reshape_ff for tiny arrays (reference of the reference)."""
    A = np.asarray(A)
    out = np.zeros(tuple(new_shape), dtype=A.dtype)
    for idx in itertools.product(*[range(s) for s in A.shape]):
        lin, mult = 0, 1
        for i, s in zip(idx, A.shape):
            lin += i * mult
            mult *= s
        new = []
        for s in new_shape:
            new.append(lin % s)
            lin //= s
        out[tuple(new)] = A[idx]
    return out


# ---------------------------------------------------------------- multilinear kernels ----
def ttv(A, vectors, dims):
    """Contract mode dims[k] of A with vectors[k] (vectors aligned with dims); removed modes vanish."""
    A = np.asarray(A, dtype=np.result_type(np.asarray(A).dtype, np.float64))
    N = A.ndim
    ins = [LETTERS[:N]]
    ops = [A]
    for v, d in zip(vectors, dims):
        ins.append(LETTERS[d])
        ops.append(np.asarray(v, dtype=float))
    outl = "".join(LETTERS[m] for m in range(N) if m not in set(dims))
    return np.einsum(",".join(ins) + "->" + outl, *ops)


def ttm(A, matrices, dims, transpose=False):
    """Mode-d product with matrices[k] for d = dims[k]; Y_(d) = M X_(d) (or M^T X_(d))."""
    out = np.asarray(A, dtype=np.result_type(np.asarray(A).dtype, np.float64))
    for M, d in zip(matrices, dims):
        M = np.asarray(M, dtype=float)
        if transpose:
            M = M.T
        out = np.moveaxis(np.tensordot(M, out, axes=(1, d)), 0, d)
    return out


def mttkrp(A, factors, n, weights=None):
    """X_(n) * khatrirao(all factors but n), i.e. sum over all other modes of X * prod factor rows."""
    A = np.asarray(A, dtype=float)
    N = A.ndim
    ins = [LETTERS[:N]]
    ops = [A]
    for m in range(N):
        if m == n:
            continue
        ins.append(LETTERS[m] + "z")
        ops.append(np.asarray(factors[m], dtype=float))
    res = np.einsum(",".join(ins) + "->" + LETTERS[n] + "z", *ops)
    if weights is not None:
        res = res * np.asarray(weights, dtype=float)[None, :]
    return res


def ttt(A, B, adims=None, bdims=None):
    A = np.asarray(A, dtype=float)
    B = np.asarray(B, dtype=float)
    if adims is None:
        return np.multiply.outer(A, B)
    return np.tensordot(A, B, axes=(list(adims), list(bdims)))


def ttsv(A, v, skip=0):
    """Tensor times same vector in all modes but the first `skip` ... (keeps the first `skip` modes)."""
    A = np.asarray(A, dtype=float)
    out = A
    for _ in range(A.ndim - skip):
        out = np.tensordot(out, np.asarray(v, dtype=float), axes=(out.ndim - 1, 0))
    return out


def contract(A, i, j):
    return np.trace(np.asarray(A), axis1=i, axis2=j)


def collapse(A, dims, fun):
    """Apply reducer over the listed modes, explicit loops over the remaining ones."""
    A = np.asarray(A)
    N = A.ndim
    dims = sorted(int(d) for d in dims)
    rest = [m for m in range(N) if m not in dims]
    if not rest:
        return fun(np.transpose(A, list(range(N))).reshape(-1))
    out = np.zeros(tuple(A.shape[m] for m in rest), dtype=float)
    for idx in itertools.product(*[range(A.shape[m]) for m in rest]):
        sl = [slice(None)] * N
        for m, i in zip(rest, idx):
            sl[m] = i
        out[idx] = fun(np.asarray(A[tuple(sl)]).reshape(-1))
    return out


def scale(A, factor, dims):
    """Multiply A by `factor` (array over the listed modes) broadcast along the others."""
    A = np.asarray(A, dtype=float)
    dims = [int(d) for d in dims]
    f = np.asarray(factor, dtype=float).reshape(tuple(A.shape[d] for d in dims), order="F") if np.asarray(factor).ndim == 1 and len(dims) > 1 else np.asarray(factor, dtype=float).reshape(tuple(A.shape[d] for d in dims))
    ins = LETTERS[: A.ndim] + "," + "".join(LETTERS[d] for d in dims) + "->" + LETTERS[: A.ndim]
    return np.einsum(ins, A, f)


def khatrirao(mats, reverse=False):
    mats = [np.asarray(m, dtype=float) for m in mats]
    if reverse:
        mats = mats[::-1]
    R = mats[0].shape[1]
    cols = []
    for r in range(R):
        c = mats[0][:, r]
        for m in mats[1:]:
            c = np.kron(c, m[:, r])
        cols.append(c)
    return np.stack(cols, axis=1)


def gram_mode(A, n):
    """Mode-n Gram matrix X_(n) X_(n)^T."""
    A = np.asarray(A, dtype=float)
    return np.tensordot(A, A, axes=([m for m in range(A.ndim) if m != n],) * 2)


def symmetrize(A, groups):
    """Average of A over all permutations of the modes within each group."""
    A = np.asarray(A, dtype=float)
    N = A.ndim
    perms_per_group = [list(itertools.permutations(g)) for g in groups]
    total = np.zeros_like(A)
    count = 0
    for combo in itertools.product(*perms_per_group):
        order = list(range(N))
        for g, p in zip(groups, combo):
            for src, dst in zip(g, p):
                order[src] = dst
        total = total + np.transpose(A, order)
        count += 1
    return total / count


def is_symmetric(A, groups):
    A = np.asarray(A)
    N = A.ndim
    for g in groups:
        for p in itertools.permutations(g):
            order = list(range(N))
            for src, dst in zip(g, p):
                order[src] = dst
            if not np.array_equal(np.transpose(A, order), A):
                return False
    return True
