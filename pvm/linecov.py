"""Coverage accounting with sys.monitoring: which repository functions / lines a workload reached."""
import os
import sys

from . import REPO

TOOL = 3
_lines = set()
_funcs = set()
_prefix = os.path.join(REPO, "pyttb") + os.sep
_on = False


def _line(code, lineno):
    fn = code.co_filename
    if fn.startswith(_prefix):
        _lines.add((fn[len(_prefix):], lineno))
        _funcs.add(fn[len(_prefix):-3].replace(os.sep, ".") + ":" + code.co_qualname)
    return sys.monitoring.DISABLE


def start():
    global _on
    if _on or not hasattr(sys, "monitoring"):
        return
    try:
        sys.monitoring.use_tool_id(TOOL, "pvm-linecov")
        sys.monitoring.register_callback(TOOL, sys.monitoring.events.LINE, _line)
        sys.monitoring.set_events(TOOL, sys.monitoring.events.LINE)
        _on = True
    except Exception:  # noqa: BLE001
        _on = False


def stop():
    global _on
    if _on:
        sys.monitoring.set_events(TOOL, 0)
        sys.monitoring.free_tool_id(TOOL)
        _on = False


def report():
    return {"functions": sorted(_funcs), "n_lines": len(_lines)}
