"""C11 -- CP-APR returns a non-negative model and a truthful objective."""
import contextlib
import io
import itertools

import numpy as np

from .. import load
from .. import gen
from ..denote import denote
from ..mutsan import state_digest

np_, ttb = load()
ID = "C11"
RULE = ("case = (algorithm mu/pdnr/pqnr, data holder dense/sparse, Poisson draw from a Kruskal ground truth N=2..3 sizes 2..5 rank 1..3 with optional "
        "empty slices / zero fibres, guess strictly positive or with all-zero rows, options maxinneriters {1,3,10}, stoptol, precompinds, inexact, "
        "lbfgsMem {1,3}, kappa, case seed); each case is run with maxiters = 1..3 from the same guess; non-trivial = every case; distinct = hash")
ANCHORS = ["cp_apr:cp_apr", "cp_apr:tt_cp_apr_mu", "cp_apr:tt_cp_apr_pdnr", "cp_apr:tt_cp_apr_pqnr", "cp_apr:tt_loglikelihood",
           "cp_apr:calculate_pi", "cp_apr:calculate_phi", "cp_apr:get_search_dir_pdnr", "cp_apr:get_search_dir_pqnr",
           "cp_apr:tt_linesearch_prowsubprob", "cp_apr:tt_loglikelihood_row", "cp_apr:get_hessian"]
EXHAUSTIVE = {"quick": {"algorithm x holder x {positive guess, zero-row guess}": "complete"}, "thorough": {"algorithm x holder x guess kind x option grid": "sampled 10x"}}
WATCHDOG = {"quick": 900, "thorough": 3400}


def nontrivial(case):
    return True


def gen_cases(tier, seed):
    rng = gen.rng_for(seed, ID, tier)
    cs = itertools.count(1)
    n = 16 if tier == "quick" else 160
    for i in range(n):
        N = int(rng.integers(2, 4))
        shape = [int(s) for s in rng.integers(2, 6, size=N)]
        R = int(rng.integers(1, 4))
        dseed = int(rng.integers(0, 2 ** 31))
        empty = bool(rng.integers(0, 3) == 0)
        zero_row = bool(i % 2)
        for alg in ("mu", "pdnr", "pqnr"):
            for rep in ("dense", "sparse"):
                yield {"w": "apr", "alg": alg, "rep": rep, "shape": shape, "R": R, "dseed": dseed, "empty_slice": empty, "zero_row": zero_row,
                       "maxinneriters": int(rng.choice([1, 3, 10])), "stoptol": float(rng.choice([1e-4, 1e-8, 1e-2])),
                       "precompinds": bool(rng.integers(0, 2)), "inexact": bool(rng.integers(0, 2)), "lbfgsMem": int(rng.choice([1, 3])),
                       "kappa": float(rng.choice([0.01, 0.1])), "printitn": int(rng.choice([0, 0, 1])),
                       # third loop exit: the time budget (already exhausted / exhausted at once / generous); decided after a sweep, so
                       # a run always performs at least one and reports exactly what it performed
                       "stoptime": [None, None, None, 0.0, -1.0, 1e6][int(rng.integers(0, 6))],
                       # counts as they come out of a counting process: integer element types; a guess near the generating model
                       "store": [None, None, "int64", "int32", "uint8", None][int(rng.integers(0, 6))], "good_guess": bool(rng.integers(0, 3) == 0),
                       "cseed": int(seed) * 67867967 + next(cs)}
    # degenerate but admissible inputs: no counts at all (every printing setting: the final report divides by the data norm), and a
    # guess with a component switched off (a weight of exactly zero is non-negative)
    for i in range(12 if tier == "quick" else 60):
        N = int(rng.integers(2, 4))
        shape = [int(s) for s in rng.integers(2, 5, size=N)]
        for alg in ("mu", "pdnr", "pqnr"):
            base = {"w": "apr", "alg": alg, "rep": ["dense", "sparse"][i % 2], "shape": shape, "R": int(rng.integers(1, 4)), "dseed": int(rng.integers(0, 2 ** 31)),
                    "empty_slice": False, "zero_row": False, "maxinneriters": int(rng.choice([1, 3, 10])), "stoptol": 1e-4, "precompinds": bool(rng.integers(0, 2)),
                    "inexact": bool(rng.integers(0, 2)), "lbfgsMem": 3, "kappa": 0.01, "stoptime": None, "store": None, "good_guess": False}
            yield dict(base, allzero=True, printitn=[0, 1, 2][i % 3], cseed=int(seed) * 67867967 + 300000 + next(cs))
            yield dict(base, zero_weight=True, R=max(2, base["R"]), printitn=[0, 1][i % 2], cseed=int(seed) * 67867967 + 300000 + next(cs))
    yield from _gen_overfit(tier, seed, cs)
    yield from _gen_single_support(tier, seed, cs)
    rng3 = gen.rng_for(seed + 9, ID, tier)
    for i in range(24 if tier == "quick" else 200):
        N = int(rng3.integers(2, 4))
        yield {"w": "apr", "alg": ["mu", "mu", "pdnr"][i % 3], "rep": ["dense", "sparse"][(i // 3) % 2], "shape": [int(s) for s in rng3.integers(3, 5, size=N)], "R": 2,
               "dseed": int(rng3.integers(0, 2 ** 31)), "empty_slice": False, "zero_row": False, "maxinneriters": 10, "stoptol": 1e-14, "precompinds": True,
               "inexact": True, "lbfgsMem": 3, "kappa": 0.01, "printitn": 0, "stoptime": None, "store": None, "good_guess": False, "restart": True,
               "only_maxiters": [2, 3], "cseed": int(seed) * 67867967 + 500000 + next(cs)}
    # the small tolerances of the three solvers at the ends of their ranges (exactly zero included), on data with an empty slice and
    # guesses with a zero row -- where exact zeros of the model meet the guarded divisions
    rng2 = gen.rng_for(seed + 7, ID, tier)
    for i in range(36 if tier == "quick" else 240):
        N = int(rng2.integers(2, 4))
        shape = [int(s) for s in rng2.integers(2, 5, size=N)]
        alg = ["mu", "pdnr", "pqnr"][i % 3]
        tol = {"kappatol": [0.0, 1e-10, 1e-6][(i // 3) % 3]} if alg == "mu" else {"epsActive": [0.0, 1e-8, 1e-5][(i // 3) % 3]}
        tol["epsDivZero"] = [1e-10, 1e-12, 1e-7][(i // 9) % 3]
        if alg == "mu":
            tol["kappa"] = [0.01, 0.0, 0.1][(i // 27) % 3 if tier != "quick" else (i // 9) % 3]
        yield {"w": "apr", "alg": alg, "rep": ["dense", "sparse"][(i // 3) % 2], "shape": shape, "R": int(rng2.integers(1, 3)), "dseed": int(rng2.integers(0, 2 ** 31)),
               "empty_slice": bool(i % 2 == 0), "zero_row": bool((i // 2) % 2 == 0), "maxinneriters": int(rng2.choice([3, 10])), "stoptol": 1e-6,
               "precompinds": bool(rng2.integers(0, 2)), "inexact": bool(rng2.integers(0, 2)), "lbfgsMem": 3, "kappa": tol.pop("kappa", 0.01), "printitn": 0,
               "stoptime": None, "store": None, "good_guess": False, "tolerances": tol, "cseed": int(seed) * 67867967 + 400000 + next(cs)}


    # the smallest budgets of the row solvers: one inner iteration per row (a priming step, then one line search whose fall-back is
    # the only step not guarded by a decrease test), one to three outer iterations, tiny dense / sparse count tables, positive guesses
    rng4 = gen.rng_for(seed + 11, ID, tier)
    for i in range(120 if tier == "quick" else 1600):
        N = 2 if i % 3 else 3
        shape = [int(s) for s in rng4.integers(2, 4, size=N)]
        yield {"w": "apr", "alg": ["pqnr", "pdnr", "pqnr"][i % 3], "rep": ["dense", "sparse"][(i // 3) % 2], "shape": shape, "R": int(rng4.integers(1, 3)),
               "dseed": int(rng4.integers(0, 2 ** 31)), "empty_slice": False, "zero_row": False, "maxinneriters": 1, "stoptol": 1e-10,
               "precompinds": bool(rng4.integers(0, 2)), "inexact": False, "lbfgsMem": 3, "kappa": 0.01, "printitn": 0, "stoptime": None, "store": None,
               "good_guess": False, "tiny_budget": True, "cseed": int(seed) * 67867967 + 600000 + next(cs)}


def _gen_overfit(tier, seed, cs):
    # more components than the data supports: projected (quasi-)Newton steps drive whole columns of some component to zero in one mode
    # while the others are still alive -- the reported objective must still be the log-likelihood of the model as returned
    rng = gen.rng_for(seed + 3, ID, tier)
    for i in range(90 if tier == "quick" else 500):
        N = int(rng.integers(2, 4))
        shape = [int(s) for s in rng.integers(2, 6, size=N)]
        for alg in ("pdnr", "pqnr"):
            yield {"w": "apr", "alg": alg, "rep": ["dense", "sparse"][i % 2], "shape": shape, "R": int(rng.integers(2, 4)), "Rtrue": 1, "dseed": int(rng.integers(0, 2 ** 31)),
                   "empty_slice": False, "zero_row": False, "maxinneriters": int(rng.choice([3, 10, 20])), "stoptol": 1e-8, "precompinds": bool(rng.integers(0, 2)),
                   "inexact": bool(rng.integers(0, 2)), "lbfgsMem": 3, "kappa": 0.01, "printitn": 0, "stoptime": None, "store": None, "good_guess": False,
                   "cseed": int(seed) * 67867967 + 100000 + next(cs)}


def _gen_single_support(tier, seed, cs):
    # one very large count; a guess in which every positive cell of a row is carried by a single component (exact zeros elsewhere) whose
    # profile in another mode is badly wrong; the smallest legal budgets (one outer, one or two inner iterations) -- a step that switches
    # that component off for the cell must never be accepted
    rng = gen.rng_for(seed + 5, ID, tier)
    for i in range(24 if tier == "quick" else 200):
        yield {"w": "apr", "alg": ["pdnr", "pdnr", "pqnr", "mu"][i % 4], "rep": ["dense", "sparse"][(i // 4) % 2], "shape": [[2, 2], [2, 3], [3, 3], [2, 2, 2]][i % 4], "R": 2,
               "big": [40.0, 500.0, 2000.0, 20000.0, 1e6][i % 5], "single_support": True, "dseed": int(rng.integers(0, 2 ** 31)), "empty_slice": False, "zero_row": False,
               "maxinneriters": [1, 1, 2][i % 3], "stoptol": 1e-4, "precompinds": bool(i % 2), "inexact": bool((i // 2) % 2), "lbfgsMem": 3, "kappa": 0.01, "printitn": 0,
               "stoptime": None, "store": None, "good_guess": False, "only_maxiters": [1, 2], "cseed": int(seed) * 67867967 + 200000 + next(cs)}


def _quiet(f, *a, **k):
    with contextlib.redirect_stdout(io.StringIO()):
        import warnings

        with warnings.catch_warnings():
            warnings.simplefilter("ignore")
            return f(*a, **k)


def loglik(X, D):
    nz = X != 0
    with np.errstate(all="ignore"):
        return float(np.sum(X[nz] * np.log(D[nz])) - D.sum())


def run_case(case, ctx):
    rng = np.random.default_rng(case["dseed"])
    shape = tuple(case["shape"])
    N, R = len(shape), case["R"]
    Rt_ = case.get("Rtrue", R)
    Ktrue = ttb.ktensor([rng.random((s, Rt_)) for s in shape], rng.random(Rt_) * 5 + 1)
    X = rng.poisson(denote(Ktrue)).astype(float)
    if case["empty_slice"]:
        X[(0,) * N] = 0
        X[0] = 0
        if N == 3:
            X[:, 0, 0] = 0  # an all-zero fibre
    if case.get("allzero"):
        X[...] = 0.0
    elif X.sum() == 0:
        X[(-1,) * N] = 2.0
    M0 = ttb.ktensor([rng.random((s, R)) + 0.1 for s in shape], np.ones(R))
    if case.get("zero_weight"):
        M0.weights[int(rng.integers(0, R))] = 0.0
    ctx.feat(allzero=bool(case.get("allzero")), zero_weight=bool(case.get("zero_weight")))
    if case["zero_row"]:
        M0.factor_matrices[0][0, :] = 0
    if case.get("single_support"):
        big = float(case["big"])
        X = np.round(rng.uniform(0, 8, size=shape))
        X[(0,) * (N - 1) + (shape[-1] - 1,)] = big
        X[(shape[0] - 1,) * 1 + (0,) * (N - 1)] = max(X[(shape[0] - 1,) + (0,) * (N - 1)], 1.0)
        A0 = np.zeros((shape[0], R))
        A0[np.arange(shape[0]), np.arange(shape[0]) % R] = 1.0            # each row of mode 0 is carried by exactly one component
        fms = [A0]
        for n_ in range(1, N):
            F_ = np.full((shape[n_], R), 0.001)
            F_[0, :] = 0.99                                                # mass on the first index: wrong for the big count (last index)
            F_[:, 1:] = rng.uniform(0.2, 1.0, size=(shape[n_], R - 1))
            fms.append(F_ / F_.sum(axis=0))
        M0 = ttb.ktensor(fms, np.array([X.sum() if r_ == 0 else max(1.0, X.sum() / 10) for r_ in range(R)]))
        ctx.feat(single_support=True, big=("1e3-" if big < 1000 else "1e3+"))
    alg, rep = case["alg"], case["rep"]
    store = case.get("store")
    if case.get("restart"):
        # a warm start from the algorithm's own (nearly) converged result: "at least as likely as the guess" is sharp here, and the
        # zero-repair step of MU must leave admissible zeros alone
        try:
            M0 = _quiet(ttb.cp_apr, ttb.tensor(X.copy()), R, init=M0.copy(), algorithm=case["alg"], maxiters=150, stoptol=1e-10, printitn=0, printinneritn=0)[0]
        except AssertionError:
            return
    if case.get("good_guess"):
        # a guess that is already close to the generating model: "at least as likely as the guess" is then a sharp requirement
        M0 = ttb.ktensor([f * (1.0 + 0.02 * rng.standard_normal(f.shape)) for f in Ktrue.factor_matrices], Ktrue.weights.copy())
    D = ttb.tensor(X.copy() if not store else X.astype(store))
    if rep == "sparse":
        nnz = int(np.count_nonzero(X))
        D = gen.mk_sptensor(ttb, X if not store else X.astype(store), gen.stored_order(rng, nnz, "shuffled"), dtype=(np.dtype(store) if store else None))
        if (gen.pick(case) // 4) % 3 == 0 and nnz < X.size:
            # a coordinate list that also stores some of the zero counts explicitly (the constructor keeps them): the same data
            zpos = np.argwhere(X == 0)
            zpos = zpos[rng.permutation(len(zpos))[: max(1, len(zpos) // 2)]]
            subs_ = np.vstack((np.asarray(D.subs).reshape(-1, N), zpos)) if nnz else zpos
            vals_ = np.vstack((np.asarray(D.vals).reshape(-1, 1), np.zeros((len(zpos), 1), dtype=np.asarray(D.vals).dtype if nnz else float)))
            perm_ = rng.permutation(len(subs_))
            D = ttb.sptensor(subs_[perm_], vals_[perm_], shape)
            ctx.feat(stored_zeros=True)
    ctx.feat(store=str(store), good_guess=bool(case.get("good_guess")), overfit=bool(case.get("Rtrue")), restart=bool(case.get("restart")))
    ddig = state_digest(D)
    ctx.feat(alg=alg, rep=rep, zero_row=case["zero_row"], empty_slice=case["empty_slice"], R=R, N=N, precompinds=case["precompinds"],
             inexact=case["inexact"], lbfgsMem=case["lbfgsMem"], maxinneriters=case["maxinneriters"])
    ll0 = loglik(X, np.maximum(denote(M0), 0))
    # the algorithm is selected case-insensitively: every spelling behaves as the lower-case one
    spell = [alg, alg.upper(), alg.capitalize(), alg][gen.pick(case) % 4]
    ctx.feat(alg_spelling=("lower" if spell == alg else "other"))
    opts = {"algorithm": spell, "stoptol": case["stoptol"], "maxinneriters": case["maxinneriters"], "printitn": case["printitn"], "printinneritn": 0}
    if case.get("stoptime") is not None:
        opts["stoptime"] = case["stoptime"]
    ctx.feat(stoptime=("default" if case.get("stoptime") is None else "exhausted" if case["stoptime"] <= 0 else "generous"))
    if alg != "mu":
        opts.update(precompinds=case["precompinds"], inexact=case["inexact"])
    if alg == "pqnr":
        opts.update(lbfgsMem=case["lbfgsMem"])
    if alg == "mu":
        opts.update(kappa=case["kappa"])
    if case.get("tolerances"):
        opts.update(case["tolerances"])
        ctx.feat(**{k_: ("0" if v_ == 0 else "default" if v_ in (1e-10, 1e-8) else "other") for k_, v_ in case["tolerances"].items()})
    for mi in case.get("only_maxiters", (1, 2, 3)):
        guess = M0.copy()
        gdig = state_digest(guess)
        r = ctx.call("cp_apr", _quiet, ttb.cp_apr, D, R, init=guess, maxiters=mi, **opts)
        if not r.ok:
            ctx.check(False, "cp_apr", "RAISE:" + type(r.exc).__name__, f"{type(r.exc).__name__}: {r.exc} | {r.tb}", maxiters=mi,
                      where=_site(r.exc), msg=str(r.exc)[:40])
            return
        M, Minit, out = r.value
        ctx.check(state_digest(D) == ddig, "cp_apr", "MUTATED", "data changed", who="data")
        ctx.check(state_digest(guess) == gdig, "cp_apr", "MUTATED", "caller's guess changed", who="guess")
        ok = isinstance(M, ttb.ktensor) and tuple(M.shape) == shape and M.ncomponents == R
        ctx.check(ok, "cp_apr", "WRONG-SHAPE", f"model {getattr(M, 'shape', None)} rank {getattr(M, 'ncomponents', None)}")
        if not ok:
            return
        neg = bool((M.weights < 0).any()) or any(bool((f < 0).any()) for f in M.factor_matrices)
        ctx.check(not neg, "cp_apr", "NEGATIVE", "negative weight or factor entry in the returned model")
        if store and mi == 3 and case.get("stoptime") is None:
            # the same counts held as float64 give the same model: the element type of the data is presentation
            Df = ttb.tensor(X.copy())
            if rep == "sparse":
                Df = ttb.sptensor(np.asarray(D.subs).copy(), np.asarray(D.vals).astype(float), shape)
            rf = ctx.call("cp_apr", _quiet, ttb.cp_apr, Df, R, init=M0.copy(), maxiters=mi, **opts)
            if rf.ok:
                a_, b_ = denote(M), denote(rf.value[0])
                sc_ = max(float(np.max(np.abs(b_))), 1e-300)
                ctx.check(bool(np.max(np.abs(a_ - b_)) <= 1e-9 * sc_), "cp_apr", "STORAGE-TYPE-MATTERS",
                          lambda: f"{store} counts and the same counts as float64 give different models (max diff {np.max(np.abs(a_ - b_)):.3e})")
        ll = loglik(X, denote(M))
        obj = float(np.asarray(out["obj"]).reshape(-1)[0])
        ctx.check(bool(np.isclose(obj, ll, rtol=1e-8, atol=1e-8)), "cp_apr", "WRONG-OBJECTIVE", f"reported obj {obj!r} vs recomputed log-likelihood {ll!r}", maxiters=mi)
        k = np.asarray(out["kktViolations"]).reshape(-1)
        ctx.check(not bool((k < 0).any()), "cp_apr", "KKT", f"negative KKT violation entry: {k.tolist()}")
        ctx.check(1 <= len(k) <= mi, "cp_apr", "ITERS", f"{len(k)} KKT entries for maxiters={mi}")
        # (not judged: how many sweeps a run with an exhausted time budget performs, and the lengths of the other per-iteration arrays of
        # the output - the property names the KKT entries and the iteration limit only)
        nouter = out.get("nOuterIters", out.get("iters"))
        ctx.check((not np.isfinite(ll0)) or (np.isfinite(ll) and ll >= ll0 - 1e-6 * abs(ll0)), "cp_apr", "WORSE-THAN-GUESS", f"log-likelihood of result {ll!r} < that of the guess {ll0!r}", maxiters=mi)


def _site(exc):
    tb = exc.__traceback__
    site = "?"
    while tb is not None:
        if "/pyttb/" in tb.tb_frame.f_code.co_filename:
            site = tb.tb_frame.f_code.co_name
        tb = tb.tb_next
    return site
