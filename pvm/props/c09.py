"""C09 -- CP-ALS returns a model consistent with everything it reports."""
import contextlib
import io
import itertools

import numpy as np

from .. import load
from .. import gen, refops
from ..denote import denote
from ..mutsan import state_digest

np_, ttb = load()
ID = "C09"
RULE = ("case = (data holder dense/sparse/Tucker/sum, shape N=3..4 sizes 3..5, true rank, requested rank, init given/random(seed)/nvecs, dimorder "
        "permutation, optdims subset, stoptol, fixsigns, printitn, case seed); each case is a family of truncated reruns maxiters=1..k from the same "
        "guess, with a recording data proxy logging every MTTKRP; non-trivial = every case (>= 3 modes, noisy data); distinct = hash of case")
ANCHORS = ["cp_als:cp_als", "ktensor:ktensor.arrange", "ktensor:ktensor.fixsigns", "tensor:tensor.mttkrp", "sptensor:sptensor.mttkrp",
           "ttensor:ttensor.mttkrp", "sumtensor:sumtensor.mttkrp", "ktensor:ktensor.norm"]
EXHAUSTIVE = {"quick": {"dimorder permutations for N=3": "complete (6), each with one data holder"},
              "thorough": {"dimorder permutations for N=3 x 4 data holders": "complete"}}
WATCHDOG = {"quick": 900, "thorough": 3400}
EPS = np.finfo(float).eps


def nontrivial(case):
    return True


def gen_cases(tier, seed):
    rng = gen.rng_for(seed, ID, tier)
    cs = itertools.count(1)
    reps = ["tensor", "sptensor", "ttensor", "sumtensor"]
    n = 150 if tier == "quick" else 1500
    perms3 = [list(p) for p in itertools.permutations(range(3))]
    for i in range(n):
        N = 3 if (i < 60 or rng.random() < 0.6) else 4
        shape = [int(s) for s in rng.integers(3, 6, size=N)]
        Rt = int(rng.integers(2, 4))
        R = int(rng.integers(1, Rt + 1))
        if N == 3 and i < (6 if tier == "quick" else 24):
            dimorder = perms3[i % 6]
            rep = reps[(i // 6) % 4]
        else:
            dimorder = [int(x) for x in rng.permutation(N)]
            rep = reps[int(rng.integers(0, 4))]
        optd = None if rng.integers(0, 3) else sorted(int(x) for x in rng.choice(N, size=int(rng.integers(2, N + 1)), replace=False))
        init = ["given", "given", "random", "nvecs", "indicator"][int(rng.integers(0, 5))]
        if rep == "sumtensor" and init == "nvecs":
            init = "given"
        # overall scale of the data: everything the property states is relative to ||X||, so it must hold far from 1 as well
        scale = [1.0, 1.0, 1.0, 1e-9, 1e4, 1e-11, 1.0, 1e-4][i % 8]
        fam = "lowrank"
        if i % 5 == 3 and rep in ("tensor", "sptensor"):
            # nearly superdiagonal data: the fitted factor columns are nearly coordinate vectors (unit in every norm at once)
            fam, R, optd = "near-diagonal", Rt, None
            shape = [max(s_, Rt) for s_ in shape]
            init = ["nvecs", "near-truth"][int(rng.integers(0, 2))]
        store = None
        if rep == "tensor" and fam == "lowrank" and i % 4 == 2:
            store = ["uint8", "int8", "int16", "bool", "float32", "uint16", "int32"][(i // 4) % 7]
            scale = 1.0
            if store == "bool" and init == "nvecs":
                init = "given"
        if i % 7 == 5 and rep in ("tensor", "ttensor") and fam == "lowrank" and store is None:
            # leading (and other) singleton modes: only rank 1 is admissible; every mode order, the guess's entry for the singleton mode is
            # negative or small
            fam, R, Rt, optd = "singleton", 1, 1, None
            shape = [[1, 4, 5], [1, 1, 3, 4], [4, 1, 3], [1, 5, 1, 3]][(i // 7) % 4]
            dimorder = [int(x) for x in rng.permutation(len(shape))]
            if (i // 7) % 2 == 0:
                first_big = next(k_ for k_, s_ in enumerate(shape) if s_ > 1)
                dimorder = [d for d in dimorder if d != first_big] + [first_big]
            init, scale = "given", 1.0
        yield {"w": "als", "rep": rep, "shape": shape, "Rt": Rt, "R": R, "dimorder": dimorder, "optdims": optd, "init": init, "store": store,
               "fixsigns": bool(rng.integers(0, 2)), "printitn": int(rng.choice([0, 1, 3])), "stoptol": float(rng.choice([0.0, 0.0, 1e-4, 1e-1])),
               "kmax": 4 if tier == "quick" else 6, "gseed": int(rng.integers(0, 2 ** 31)), "cseed": int(seed) * 49979687 + next(cs),
               "scale": scale, "fam": fam}


    # data whose components are all negative, from guesses with every factor negative (sign fixing on and off), orders 3 and 4
    rngn = gen.rng_for(seed, ID, tier, "negated")
    for i in range(8 if tier == "quick" else 40):
        N = 3 if i % 2 == 0 else 4
        Rt = int(rngn.integers(2, 4))
        shape = [max(int(s), Rt) for s in rngn.integers(3, 6, size=N)]
        yield {"w": "als", "rep": ["tensor", "sptensor"][(i // 2) % 2], "shape": shape, "Rt": Rt, "R": Rt, "dimorder": [int(x) for x in rngn.permutation(N)],
               "optdims": None, "init": "near-truth", "store": None, "fixsigns": bool(i % 4 != 3), "printitn": 0, "stoptol": 0.0,
               "kmax": 3, "gseed": int(rngn.integers(0, 2 ** 31)), "cseed": int(seed) * 49979687 + 700000 + i, "scale": 1.0, "fam": "near-diagonal", "negated": True}
    # sparse data with one long, almost empty mode (fewer stored entries than half its length, some sharing an index of that mode)
    for i, shp in enumerate([[8, 2, 2], [2, 10, 2], [3, 2, 12], [9, 3], [2, 2, 2, 9]] * (1 if tier == "quick" else 6)):
        N = len(shp)
        yield {"w": "als", "rep": "sptensor", "shape": shp, "Rt": 2, "R": 1 + (i % 2), "dimorder": [int(x) for x in rng.permutation(N)], "optdims": None,
               "init": ["given", "random"][i % 2], "store": None, "fixsigns": bool(i % 2), "printitn": int(rng.choice([0, 1])), "stoptol": 0.0,
               "kmax": 4, "gseed": int(rng.integers(0, 2 ** 31)), "cseed": int(seed) * 49979687 + next(cs), "scale": 1.0, "fam": "long-sparse"}


def _quiet(f, *a, **k):
    with contextlib.redirect_stdout(io.StringIO()):
        return f(*a, **k)


def _recording(cls):
    class Rec(cls):
        __slots__ = ("log", "breakdown")

        def mttkrp(self, U, n):
            self.log.append((int(n), [np.array(u, copy=True) for u in (U.factor_matrices if hasattr(U, "factor_matrices") else U)]))
            out = super().mttkrp(U, n)
            # an exactly-zero column: the least-squares update of that component is the zero vector, the component vanishes and
            # the next Gram matrix is singular -- ALS is not defined from this guess (0/0 in the column scaling)
            if isinstance(out, np.ndarray) and out.ndim == 2 and bool(np.any(np.all(out == 0, axis=0))):
                # ... provided the factors that went in were all non-degenerate: a zero column produced from a factor that already had a
                # zero column is the algorithm's own doing and stays in scope
                fms = self.log[-1][1]
                if not any(bool(np.any(np.all(np.asarray(f) == 0, axis=0))) for k_, f in enumerate(fms) if k_ != int(n)):
                    self.breakdown = True
            return out
    Rec.__name__ = cls.__name__
    return Rec


def run_case(case, ctx):
    rng = np.random.default_rng(case["cseed"])
    shape = tuple(case["shape"])
    N, R, Rt = len(shape), case["R"], case["Rt"]
    rep = case["rep"]
    scale = float(case.get("scale", 1.0))
    fam = case.get("fam", "lowrank")
    if fam == "near-diagonal":
        lam = np.array([5.0, 3.0, 2.0, 1.5][:Rt])
        Kt = ttb.ktensor([np.eye(s, Rt) for s in shape], lam * scale)
        X = denote(Kt) + scale * float(rng.choice([1e-4, 1e-3, 3e-3])) * rng.standard_normal(shape)
        if case.get("negated"):
            # every component of the data is negative: with non-negative weights the sign sits in an odd number of factors
            Kt = ttb.ktensor([np.eye(s, Rt) for s in shape], -lam * scale)
            X = -X
    else:
        Kt = ttb.ktensor([rng.standard_normal((s, Rt)) for s in shape], (rng.random(Rt) + 0.5) * scale)
        X = denote(Kt) + 0.1 * scale * rng.standard_normal(shape)
    store = case.get("store")
    if rep == "tensor" and store:
        # the same kind of data held in a narrow element type (image-like / count-like / mask data); the reference is its float64 image
        mx = float(np.max(np.abs(X))) + 1e-300
        if store == "bool":
            Xst = X > 0.2 * mx
        elif store in ("uint8", "uint16"):
            Xst = np.round(np.abs(X) / mx * (250 if store == "uint8" else 60000)).astype(store)
        else:
            Xst = np.round(X / mx * {"int8": 120, "int16": 30000, "int32": 2.0e9, "float32": 1.0}[store]).astype(store) if store != "float32" else X.astype(np.float32)
        D = _recording(ttb.tensor)(Xst.copy())
        Xd = np.asarray(Xst, dtype=float)
    elif rep == "tensor":
        D = _recording(ttb.tensor)(X.copy())
        Xd = X
    elif rep == "sptensor" and fam == "long-sparse":
        L = int(np.argmax(shape))
        k = max(2, shape[L] // 2)
        Xs = np.zeros(shape)
        pos = [int(x) for x in rng.choice(shape[L], size=k - 1, replace=False)]
        pos.append(pos[0])
        for j in pos:
            for _t in range(20):
                idx = [int(rng.integers(0, s_)) for s_ in shape]
                idx[L] = j
                if Xs[tuple(idx)] == 0:
                    Xs[tuple(idx)] = float(rng.uniform(0.5, 3.0)) * float(rng.choice([-1.0, 1.0]))
                    break
        subs = np.array(np.nonzero(Xs)).T
        subs = subs[rng.permutation(subs.shape[0])]
        D = _recording(ttb.sptensor)(subs, Xs[tuple(subs.T)][:, None], shape)
        Xd = Xs
    elif rep == "sptensor":
        Xs = X * (rng.random(shape) < (0.6 if fam == "lowrank" else 0.9))
        if fam == "near-diagonal":
            Xs = np.where(denote(Kt) != 0, X, Xs)
        subs = np.array(np.nonzero(Xs)).T
        subs = subs[rng.permutation(subs.shape[0])]
        D = _recording(ttb.sptensor)(subs, Xs[tuple(subs.T)][:, None], shape)
        Xd = Xs
    elif rep == "ttensor":
        csz = tuple(min(s, 3) for s in shape)
        tf_ = [rng.standard_normal((s, c)) for s, c in zip(shape, csz)]
        if gen.pick(case) % 2:
            tf_ = [f / np.linalg.norm(f, axis=0) for f in tf_]        # unit-length but correlated columns (not orthonormal)
        D = _recording(ttb.ttensor)(ttb.tensor(scale * rng.standard_normal(csz)), tf_)
        Xd = denote(D)
    else:
        parts_ = [ttb.tensor(X.copy()), Kt.copy()]
        Xd = X + denote(Kt)
        if gen.pick(case) % 2:
            # a sum of three or five parts
            for j_ in range([1, 3][(gen.pick(case) // 2) % 2]):
                Xj = scale * 0.3 * rng.standard_normal(shape)
                parts_.append(ttb.tensor(Xj.copy()) if j_ % 2 == 0 else ttb.tensor(Xj.copy()).to_sptensor())
                Xd = Xd + Xj
        D = _recording(ttb.sumtensor)(parts_)
        ctx.feat(parts=len(parts_))
    D.log = []
    D.breakdown = False
    dimorder = np.array(case["dimorder"])
    optd = None if case["optdims"] is None else np.array(case["optdims"])
    M0 = ttb.ktensor([rng.random((s, R)) for s in shape])
    if case["init"] == "indicator":
        # cluster-indicator style start: columns with disjoint supports in some modes (inner products exactly 0.0)
        for n in range(N):
            if rng.random() < 0.7 and shape[n] >= R:          # (every component owns a row: a guess with a zero column is not admissible)
                F = np.zeros((shape[n], R))
                owner = rng.integers(0, R, size=shape[n])
                owner[:R] = np.arange(R) if shape[n] >= R else owner[:R]
                F[np.arange(shape[n]), owner] = rng.random(shape[n]) + 0.5
                M0.factor_matrices[n] = F
    if fam == "singleton":
        for n_ in range(N):
            if shape[n_] == 1:
                M0.factor_matrices[n_] = np.array([[float(rng.choice([-1.0, 0.4, -2.5]))]])
    if case["init"] == "near-truth":
        M0 = ttb.ktensor([np.eye(s, R) + 0.01 * rng.standard_normal((s, R)) for s in shape])
        if case.get("negated"):
            # ... and the guess carries it in every factor (order 3: three negative factors per component, order 4: four before the sweep
            # turns one around): sign fixing has to flip pairs and must leave the tensor alone
            M0 = ttb.ktensor([-np.asarray(f) for f in M0.factor_matrices])
            ctx.feat(negated=True)
    ctx.feat(rep=rep, init=case["init"], N=N, R=R, all_modes=(optd is None), fixsigns=case["fixsigns"], printitn=case["printitn"], stoptol=case["stoptol"],
             fam=fam, scale=("1" if scale == 1.0 else "tiny" if scale < 1e-6 else "small" if scale < 1 else "large"), store=str(store))
    if (store or fam == "long-sparse") and min(np.linalg.matrix_rank(np.moveaxis(Xd, n_, 0).reshape(shape[n_], -1)) for n_ in range(N)) < R:
        ctx.tag("outside-domain(unfolding rank < requested rank)")
        return
    normX2 = float(np.sum(Xd ** 2))
    # single-precision data is processed in single precision: rounding is judged at the precision of the data's own arithmetic
    EPS = float(np.finfo(np.float32).eps) if store == "float32" else float(np.finfo(float).eps)
    data_digest = state_digest(D)
    prevR2 = None
    stop0 = case["stoptol"] == 0.0
    do = [int(d) for d in dimorder if (optd is None or d in optd)]
    for mi in range(1, case["kmax"] + 1):
        given = case["init"] in ("given", "indicator", "near-truth")
        init_arg = M0.copy() if given else case["init"]
        guess_digest = state_digest(init_arg) if given else None
        np.random.seed(case["gseed"])
        D.log.clear()
        D.breakdown = False
        r = ctx.call("cp_als", _quiet, ttb.cp_als, D, R, init=init_arg, maxiters=mi, stoptol=case["stoptol"], dimorder=dimorder.copy(),
                     optdims=None if optd is None else optd.copy(), fixsigns=case["fixsigns"], printitn=case["printitn"])
        if D.breakdown:
            ctx.tag("als-breakdown(zero MTTKRP column: out of domain)")
            ctx.check(state_digest(D) == data_digest, "cp_als", "MUTATED", "data tensor changed by cp_als", who="data")
            return
        if not r.ok and case["init"] == "indicator" and isinstance(r.exc, np.linalg.LinAlgError):
            # a guess with exact zeros (disjoint supports) can make two components coincide exactly outside the mode being updated (seen:
            # Hadamard Gram [[1,0,1],[0,1,0],[1,0,1]] in the first sweep on 0/1 data): that least-squares system has no unique solution
            # and ALS is not defined from this guess.  Generic guesses cannot do this, so there a singular system stays a violation
            ctx.tag("als-breakdown(singular normal equations from a guess with exact zeros: out of domain)")
            ctx.check(state_digest(D) == data_digest, "cp_als", "MUTATED", "data tensor changed by cp_als", who="data")
            return
        if not r.ok:
            ctx.check(False, "cp_als", "RAISE:" + type(r.exc).__name__, f"{type(r.exc).__name__}: {r.exc} | {r.tb}", maxiters=mi)
            return
        M, Mi, out = r.value
        log = list(D.log)
        ctx.check(state_digest(D) == data_digest, "cp_als", "MUTATED", "data tensor changed by cp_als", who="data")
        if guess_digest is not None:
            ctx.check(state_digest(init_arg) == guess_digest, "cp_als", "MUTATED", "caller's initial guess changed by cp_als", who="guess")
            ctx.check(Mi is not init_arg and state_digest(Mi) == guess_digest, "cp_als", "WRONG-INIT", "returned initial guess differs from the guess passed / is the caller's object")
        ok_shape = (isinstance(M, ttb.ktensor) and tuple(M.shape) == shape and M.ncomponents == R)
        ctx.check(ok_shape, "cp_als", "WRONG-SHAPE", f"model shape {getattr(M, 'shape', None)} rank {getattr(M, 'ncomponents', None)}")
        if not ok_shape:
            return
        Md = denote(M)
        R2 = float(np.sum((Xd - Md) ** 2))
        normM2 = float(np.sum(Md ** 2))
        tolR = 1e4 * EPS * (normX2 + normM2)
        if rep != "sumtensor":
            ctx.check(abs(out["normresidual"] ** 2 - R2) <= tolR, "cp_als", "WRONG-RESIDUAL",
                      f"reported normresidual^2 {out['normresidual'] ** 2!r} vs recomputed ||X-M||^2 {R2!r} (tol {tolR:.3g})", maxiters=mi)
            fit = 1 - np.sqrt(R2) / np.sqrt(normX2)
            ftol = tolR / (2 * max(np.sqrt(R2), 1e-300) * np.sqrt(normX2)) + 1e-12 + (1e-5 if store == "float32" else 0.0)
            ctx.check(abs(out["fit"] - fit) <= ftol, "cp_als", "WRONG-FIT", f"reported fit {out['fit']!r} vs recomputed {fit!r} (tol {ftol:.3g})", maxiters=mi)
        else:
            val = normM2 - 2 * float(np.sum(Xd * Md))
            # sum-tensor data: norm() unavailable, documented report is ||M||^2 - 2<X,M>
            ctx.check(abs(out["fit"] - val) <= tolR, "cp_als", "WRONG-FIT", f"sumtensor: reported {out['fit']!r} vs ||M||^2-2<X,M> {val!r}", maxiters=mi)
        if stop0 and prevR2 is not None:
            ctx.check(R2 <= prevR2 + 1e4 * EPS * normX2, "cp_als", "NON-MONOTONE",
                      f"residual^2 grew from {prevR2!r} (maxiters={mi - 1}) to {R2!r} (maxiters={mi})", maxiters=mi)
        prevR2 = R2
        nn = [np.linalg.norm(f, axis=0) for f in M.factor_matrices]
        # data unfoldings have rank >= requested rank, so no component may vanish: every column has unit norm
        ctx.check(all(bool(np.all(np.abs(n_ - 1.0) <= 1e-10)) for n_ in nn), "cp_als", "NORMAL-FORM",
                  lambda: f"factor columns are not unit 2-norm: {[n_.tolist() for n_ in nn]}")
        ctx.check(not (M.weights < 0).any() and not (np.diff(M.weights) > 1e-12).any(), "cp_als", "NORMAL-FORM", f"weights not non-negative descending: {M.weights.tolist()}")
        # the limit is judged on the sweeps actually observed (the MTTKRP log below) and on the reported count under either numbering
        # (index of the last sweep, or number of sweeps)
        ctx.check(out["iters"] <= mi, "cp_als", "ITERS", f"iters {out['iters']} exceeds maxiters {mi}")
        # (with stoptol=0 the unchanged code always uses every iteration; the property only promises that the limit is respected, so an
        # implementation that stops once the fit no longer changes is not judged)
        # least-squares normal equations of the mode updated last
        n = do[-1]
        others = [k for k in range(N) if k != n]
        KRm = refops.mttkrp(Xd, M.factor_matrices, n)
        G = np.ones((R, R))
        for k in others:
            G = G * (M.factor_matrices[k].T @ M.factor_matrices[k])
        B = M.factor_matrices[n] * M.weights
        resid = np.linalg.norm(KRm - B @ G)
        sc = np.linalg.norm(KRm) + np.linalg.norm(B) * np.linalg.norm(G)
        cond = np.linalg.cond(G)
        if cond < 1e8:
            ctx.check(resid <= 1e4 * EPS * cond * sc, "cp_als", "NORMAL-EQUATIONS",
                      f"last-updated mode {n}: ||X_(n) KR - B G|| = {resid:.3e} (scale {sc:.3e}, cond {cond:.3e})", maxiters=mi)
        # MTTKRP log: count and first-call factors equal the returned initial guess
        nsweeps = len(log) // max(1, len(do))
        whole = len(log) == nsweeps * len(do) and nsweeps >= 1
        if whole:
            ctx.check(nsweeps <= mi, "cp_als", "ITERS", f"{nsweeps} sweeps ({len(log)} MTTKRP calls over {len(do)} modes) exceed maxiters {mi}")
            ctx.check(out["iters"] in (nsweeps - 1, nsweeps), "cp_als", "ITERS", f"reported iters {out['iters']} but {nsweeps} sweeps were performed")
        else:
            ctx.tag("mttkrp-log-is-not-whole-sweeps")        # (an implementation may evaluate further MTTKRPs: then the log says nothing about sweeps)
        if log:
            first = log[0]
            ok = first[0] == do[0] and all(k == first[0] or np.array_equal(first[1][k], Mi.factor_matrices[k]) for k in range(N))
            ctx.check(ok, "cp_als", "WRONG-INIT", "factors passed to the first MTTKRP are not the returned initial guess")
            seq = [c[0] for c in log]
            ctx.check((not whole) or seq == do * nsweeps, "cp_als", "MODE-ORDER", f"modes updated in order {seq[:2 * len(do)]}, requested {do}")
