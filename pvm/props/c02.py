"""C02 -- multilinear products equal their definition in every representation."""
import itertools

import numpy as np

from .. import load
from .. import gen, refops
from ..denote import denote, close, kind

np_, ttb = load()
ID = "C02"
RULE = ("case = (kernel, ground truth kind dense/kruskal/tucker/sum, shape, sparsity fill, mode designation dims|exclude_dims in "
        "ascending or shuffled order, multiplicand list length |dims| or N, transpose flag, call form, case seed); every non-empty "
        "mode subset for N<=3 (quick) / N<=4 (thorough); each case runs the kernel on every holder of the same array (dense, sparse, "
        "Kruskal, Tucker, sum) against the einsum/tensordot definition; non-trivial = tensor has >= 2 cells; distinct = hash of case")
ANCHORS = [
    "pyttb_utils:tt_dimscheck", "pyttb_utils:get_mttkrp_factors",
    "tensor:tensor.ttv", "tensor:tensor.ttm", "tensor:tensor.mttkrp", "tensor:tensor.mttkrps", "tensor:tensor.ttt",
    "tensor:tensor.ttsv", "tensor:tensor.innerprod", "tensor:tensor.norm", "tensor:tensor.contract", "tensor:tensor.collapse",
    "tensor:tensor.scale", "tensor:tensor.mask",
    "sptensor:sptensor.ttv", "sptensor:sptensor.ttm", "sptensor:sptensor.mttkrp", "sptensor:sptensor.innerprod",
    "sptensor:sptensor.norm", "sptensor:sptensor.contract", "sptensor:sptensor.collapse", "sptensor:sptensor.scale",
    "ktensor:ktensor.ttv", "ktensor:ktensor.mttkrp", "ktensor:ktensor.innerprod", "ktensor:ktensor.norm", "ktensor:ktensor.mask",
    "ttensor:ttensor.ttv", "ttensor:ttensor.ttm", "ttensor:ttensor.mttkrp", "ttensor:ttensor.innerprod", "ttensor:ttensor.norm",
    "ttensor:ttensor.reconstruct", "sumtensor:sumtensor.ttv", "sumtensor:sumtensor.mttkrp", "sumtensor:sumtensor.innerprod",
    "khatrirao:khatrirao", "tenmat:tenmat.__mul__",
]
EXHAUSTIVE = {
    "quick": {"ttv/ttm: every non-empty mode subset x {dims asc, dims shuffled, exclude_dims} x list length {|dims|, N}, N<=3": "complete",
              "mttkrp: every mode n, N<=4; contract: every ordered pair of equal-sized modes": "complete"},
    "thorough": {"ttv/ttm mode subsets N<=4": "complete", "one-hot basis sweep for shapes <= 12 cells (ttv, ttm, innerprod, contract, collapse, scale)": "complete"},
}
NPINT_ARGS = True     # a quarter of the cases pass their integer arguments as NumPy integers (core.Ctx.begin)
STRIDED_ARGS = True   # a quarter of the cases pass every array argument as a strided, non-contiguous view (core.Ctx.begin)
SEQ_ARGS = True       # a quarter of the cases pass short integer arrays (mode lists, permutations) as plain lists / tuples (core.Ctx.begin)
MUTSAN = "full"        # operand digests + result-vs-operand aliasing on every depth-0 call (pvm/mutsan.py)
WATCHDOG = {"quick": 900, "thorough": 3400}
TOL = 1e-10


def nontrivial(case):
    return int(np.prod(case.get("shape", [2]))) >= 2


# ------------------------------------------------------------------ case generation ------
def _desigs(rng, N, tier):
    """Mode designations: (form, listed modes, list length key)."""
    out = []
    for sub in gen.nonempty_subsets(N):
        comp = [m for m in range(N) if m not in sub]
        listings = [list(sub)]
        if len(sub) > 1:
            listings.append([int(x) for x in rng.permutation(sub)])
            if tier == "thorough":
                listings.append(list(reversed(sub)))
        for lst in listings:
            for ln in ("P", "N"):
                out.append(("dims", lst, ln))
        if comp:
            exl = [list(comp)]
            if len(comp) > 1:
                exl.append([int(x) for x in rng.permutation(comp)])
            for lst in exl:
                for ln in ("P", "N"):
                    out.append(("exclude", lst, ln))
        else:
            out.append(("default", [], "N"))
    return out


BASES = ["dense", "kruskal", "tucker", "sum"]
FILLS = ["none", "one", "half-", "half+", "all"]


def _shape_pool(rng, tier):
    pool = {1: [(3,), (1,), (4,)], 2: [(2, 3), (3, 1), (1, 1), (4, 2)], 3: [(2, 3, 2), (3, 1, 2), (2, 2, 2), (1, 3, 1)],
            4: [(2, 3, 2, 2), (2, 1, 3, 2)]}
    if tier == "thorough":
        for N in (2, 3, 4):
            pool[N] += [gen.rand_shape(rng, N, 1, 4) for _ in range(4)]
    return pool


def _gen_cases(tier, seed):
    rng = gen.rng_for(seed, ID, tier)
    pool = _shape_pool(rng, tier)
    cs = itertools.count(1)

    def C(**kw):
        kw["cseed"] = int(seed) * 1000003 + next(cs)
        return kw

    maxN = 3 if tier == "quick" else 4
    # ttv / ttm over every designation
    for N in range(1, maxN + 1):
        for shp in pool[N] + ([pool[4][0]] if (N == 3 and tier == "quick") else []):
            n_ = len(shp)
            for form, lst, ln in _desigs(rng, n_, tier):
                base = BASES[int(rng.integers(0, 4))]
                fill = FILLS[int(rng.integers(0, 5))]
                yield C(w="ttv", shape=list(shp), base=base, fill=fill, form=form, lst=lst, ln=ln, single=False)
                yield C(w="ttm", shape=list(shp), base=BASES[int(rng.integers(0, 4))], fill=FILLS[int(rng.integers(0, 5))],
                        form=form, lst=lst, ln=ln, transpose=bool(rng.integers(0, 2)), single=False)
            for d in range(n_):
                yield C(w="ttv", shape=list(shp), base=BASES[d % 4], fill="half-", form="dims", lst=[d], ln="P", single=True)
                yield C(w="ttm", shape=list(shp), base=BASES[(d + 1) % 4], fill="half+", form="dims", lst=[d], ln="P",
                        transpose=bool(d % 2), single=True)
    # mttkrp / mttkrps
    for N in range(2, 5):
        for shp in pool[N]:
            for n in range(N):
                for ukind in ("list", "ktensor"):
                    for base in BASES:
                        yield C(w="mttkrp", shape=list(shp), base=base, fill=FILLS[int(rng.integers(0, 5))], n=n, ukind=ukind,
                                R=int(rng.integers(1, 4)))
            for ukind in ("list", "ktensor"):
                yield C(w="mttkrps", shape=list(shp), ukind=ukind, R=int(rng.integers(1, 4)))
    # mttkrps: every position of the memory-optimal split (dominant first / last / interior mode) and >= 5 modes, where the left and
    # right partial products each involve two or more distinct factor matrices
    wide = [(7, 2, 3, 2), (2, 3, 2, 9), (2, 7, 2, 3), (3, 2, 8, 2), (2, 2, 2, 2, 3), (3, 2, 2, 2, 2), (2, 3, 2, 2, 3), (2, 2, 5, 2, 2), (2, 2, 2, 2, 2, 2),
            (3, 2, 1, 2, 2, 2)]
    if tier == "thorough":
        wide += [gen.rand_shape(rng, N, 1, 4) for N in (4, 5, 5, 6) for _ in range(3)]
    for shp in wide:
        for ukind in ("list", "ktensor"):
            yield C(w="mttkrps", shape=list(shp), ukind=ukind, R=int(rng.integers(2, 4)))
    # one long, almost empty mode: fewer stored entries than half its length, several of them sharing an index of that mode (the
    # products landing on one output position are summed)
    for shp in ((8, 2, 2), (2, 9, 2), (2, 2, 10), (12, 2), (3, 14), (2, 2, 2, 9)):
        for rep in range(1 if tier == "quick" else 4):
            yield C(w="longsparse", shape=list(shp), nnz=int(rng.integers(2, max(3, max(shp) // 2) + 1)))
    # ttt
    reps = 1 if tier == "quick" else 6
    for _ in range(reps):
        for NA in range(1, 4):
            for NB in range(1, 4):
                sa = gen.rand_shape(rng, NA, 1, 3)
                for k in range(0, min(NA, NB) + 1):
                    for _r in range(2):
                        ad = [int(x) for x in rng.permutation(NA)[:k]]
                        bd = [int(x) for x in rng.permutation(NB)[:k]]
                        sb = list(gen.rand_shape(rng, NB, 1, 3))
                        for i, j in zip(ad, bd):
                            sb[j] = sa[i]
                        yield C(w="ttt", shape=list(sa), shapeB=sb, adims=ad, bdims=bd, same_dims=False)
                if NA == NB:
                    for k in range(1, NA + 1):
                        ad = sorted(int(x) for x in rng.permutation(NA)[:k])
                        sb = list(gen.rand_shape(rng, NB, 1, 3))
                        for i in ad:
                            sb[i] = sa[i]
                        yield C(w="ttt", shape=list(sa), shapeB=sb, adims=ad, bdims=ad, same_dims=True)
    # ttsv
    for N in range(1, 5):
        for sz in (1, 2, 3):
            for skip in [None] + list(range(0, N - 1)):
                for ver in (None, 1, 2):
                    yield C(w="ttsv", shape=[sz] * N, skip=skip, version=ver)
    # innerprod / norm over ordered pairs of kinds
    kinds = ["tensor", "sptensor", "ktensor", "ttensor", "sumtensor"]
    for N in range(1, 4):
        for shp in pool[N]:
            for ka in kinds:
                for kb in kinds[:4]:
                    for fill in (["one", "half-", "none"] if "sptensor" in (ka, kb) else ["half-"]):
                        yield C(w="innerprod", shape=list(shp), ka=ka, kb=kb, fill=fill, fillB=FILLS[int(rng.integers(0, 5))])
            for ka in kinds[:4]:
                yield C(w="norm", shape=list(shp), ka=ka, fill=FILLS[int(rng.integers(0, 5))])
            if N >= 2:
                # Kruskal / Tucker tensors that denote the zero tensor through cancellation (rank-deficient factors): the Gram-formula
                # norm is the square root of a rounding-level number of either sign
                for ka in ("ktensor", "ttensor"):
                    yield C(w="zero_norm", shape=list(shp), ka=ka)
            if N >= 2:
                for _ in range(9):
                    yield C(w="innerprod", shape=list(shp), ka="tensor", kb="tensor", fill="all", fillB="all")
    # sums whose parts hold whole numbers in an integer element type, multiplied by integer vectors in every mode (the parts' products are
    # Python / NumPy integers, not floats)
    for shp in ((2, 2), (3, 2, 2), (4,)):
        for nparts in (1, 2, 3):
            yield C(w="sum_int_ttv", shape=list(shp), nparts=nparts)
    # two sparse operands over one set of positions (a model evaluated on the data's entries), each with its own stored order and values;
    # and two operands with equally many entries whose position sets differ in one / in all positions
    for N in range(1, 4):
        for shp in pool[N]:
            for rel in ("same", "same", "one-differs", "disjoint"):
                yield C(w="innerprod_pattern", shape=list(shp), rel=rel)
    # sparse operands with thousands of stored entries on both sides (any chunking of the subscript look-up must be invisible)
    for shp in ([21, 20, 21],) if tier == "quick" else ([21, 20, 21], [95, 96], [12, 12, 12, 6]):
        yield C(w="innerprod", shape=list(shp), ka="sptensor", kb="sptensor", fill="half+", fillB="half+")
        yield C(w="scale", shape=list(shp), dims=list(range(len(shp))), fkind="sptensor", fill="half+")
        yield C(w="scale", shape=list(shp), dims=[0, 1], fkind="sptensor", fill="half+")
    # contract / collapse / scale / mask
    for N in range(2, 5):
        for shp0 in pool[N]:
            for i, j in itertools.permutations(range(N), 2):
                shp = list(shp0)
                shp[j] = shp[i]
                for fill in ("none", "one", "half-", "half+", "all"):
                    yield C(w="contract", shape=shp, i=i, j=j, fill=fill)
    reducers = ["sum", "npsum", "max", "min", "prod", "sumsq", "mean", "halfsum", "rms"]
    for N in range(1, maxN + 1):
        for shp in pool[N]:
            for sub in gen.nonempty_subsets(N) + [None]:
                red = reducers[int(rng.integers(0, len(reducers)))]
                for fill in ("none", "one", "half-", "all"):
                    yield C(w="collapse", shape=list(shp), dims=sub, red=red, fill=fill, vtype=["float", "float", "int64", "int32", "uint8"][int(rng.integers(0, 5))])
            for sub in gen.nonempty_subsets(N):
                for fk in ("ndarray", "tensor", "sptensor"):
                    yield C(w="scale", shape=list(shp), dims=sub, fkind=fk, fill=FILLS[int(rng.integers(0, 5))])
            for fill in FILLS:
                for wf in ("one", "half-", "all"):
                    yield C(w="mask", shape=list(shp), fill=fill, wfill=wf)
    # Tucker reconstruct, tenmat product
    for N in range(1, 4):
        for shp in pool[N]:
            for _ in range(2 if tier == "quick" else 8):
                yield C(w="reconstruct", shape=list(shp), nmodes=int(rng.integers(1, N + 1)), matrix=bool(rng.integers(0, 2)))
    for _ in range(40 if tier == "quick" else 400):
        NA, NB = int(rng.integers(1, 4)), int(rng.integers(1, 4))
        yield C(w="tenmat_mul", shape=list(gen.rand_shape(rng, NA, 1, 3)), shapeB=list(gen.rand_shape(rng, NB, 1, 3)))
    # thorough: one-hot basis sweep
    if tier == "thorough":
        for shp in [s for s in gen.all_shapes(3, (1, 2, 3)) if 2 <= int(np.prod(s)) <= 12]:
            for cell in range(int(np.prod(shp))):
                yield C(w="basis", shape=list(shp), cell=cell)


# ------------------------------------------------------------------ building operands ------
def _ground(case, rng, shape, base=None, fill=None):
    """Return (A, holders dict kind->object) for one ground-truth array."""
    base = base or case.get("base", "dense")
    fill = fill or case.get("fill", "half-")
    N = len(shape)
    H = {}
    if base == "kruskal":
        R = int(rng.integers(1, 4))
        w, fm = gen.rand_ktensor_parts(rng, shape, R)
        K = gen.mk_ktensor(ttb, w, fm)
        A = denote(K)
        H["ktensor"] = K
    elif base == "tucker":
        ranks = [int(rng.integers(1, 3)) for _ in shape]
        core, fm = gen.rand_ttensor_parts(rng, shape, ranks)
        TT = gen.mk_ttensor(ttb, core, fm, sparse_core=bool(rng.integers(0, 2)))
        A = denote(TT)
        H["ttensor"] = TT
        if rng.random() < 0.5:
            # the same Tucker tensor with its factor matrices held as SciPy sparse matrices (the constructor accepts them)
            from scipy import sparse as sp

            H["ttensor(sparse factors)"] = ttb.ttensor(TT.core.copy(), [sp.coo_matrix(np.asarray(f, dtype=float)) for f in fm])
    elif base == "sum":
        w, fm = gen.rand_ktensor_parts(rng, shape, 2)
        K = gen.mk_ktensor(ttb, w, fm)
        D = gen.sparsify(rng, gen.normals(rng, shape), "some")
        other = gen.mk_sptensor(ttb, D) if rng.integers(0, 2) else ttb.tensor(D.copy())
        parts = [K, other]
        # sums of three, five and six parts as well (any pairing or halving of the parts must add up all of them)
        for _ in range(int(rng.choice([0, 0, 1, 3, 4]))):
            kind_ = int(rng.integers(0, 3))
            Dx = gen.sparsify(rng, gen.normals(rng, shape), "some")
            if kind_ == 2:
                wx, fx = gen.rand_ktensor_parts(rng, shape, 1)
                parts.append(gen.mk_ktensor(ttb, wx, fx))
            else:
                parts.append(gen.mk_sptensor(ttb, Dx) if kind_ else ttb.tensor(Dx.copy()))
        ST = ttb.sumtensor(parts)
        A = denote(ST)
        H["sumtensor"] = ST
    else:
        A = gen.sparsify(rng, gen.normals(rng, shape), fill)
    H["tensor"] = gen.mk_tensor(ttb, np.array(A, dtype=float), case.get("hist", "ctor"))
    nnz = int(np.count_nonzero(A))
    H["sptensor"] = gen.mk_sptensor(ttb, A, gen.stored_order(rng, nnz, "shuffled"), hist=("grown-region" if case.get("hist") == "grown" else None))
    return np.array(A, dtype=float), H


def _nnzc(A):
    n = int(np.count_nonzero(A))
    return "0" if n == 0 else "1" if n == 1 else "2+"


def _selected(case, N):
    form, lst = case["form"], case["lst"]
    if form == "dims":
        return list(lst)
    if form == "exclude":
        return [m for m in range(N) if m not in lst]
    return list(range(N))


def _mult_list(case, N, per_mode):
    """Multiplicand list for this designation (see DESIGN C02.D for the |dims| == N reading)."""
    sel = _selected(case, N)
    P = len(sel)
    if case["form"] == "dims":
        if case["ln"] == "P" or P == N:
            return [per_mode[m] for m in sel]          # listed order
        return [per_mode[m] for m in range(N)]        # one per tensor mode
    # exclude / default: selected modes are the ascending complement
    if case["ln"] == "P" or P == N:
        return [per_mode[m] for m in sorted(sel)]
    return [per_mode[m] for m in range(N)]


def _desig_kw(case):
    if case["form"] == "dims":
        return {"dims": np.array(case["lst"], dtype=int)}
    if case["form"] == "exclude":
        return {"exclude_dims": np.array(case["lst"], dtype=int)}
    return {}


def _compare(ctx, op, got, want, holder, **feat):
    """Denote whatever came back and compare with the reference."""
    k = kind(got)
    ctx.tag(f"{op.split('.')[-1]}->{k}")
    want = np.asarray(want, dtype=float)
    g = denote(got)
    if g.size == 1 and want.size == 1:
        g, want = g.reshape(()), want.reshape(())
    if g.ndim == 0 and want.ndim == 0:
        ok = close(g, want, scale=feat.pop("_scale", None), tol=TOL)
    else:
        ok = g.shape == want.shape and close(g, want, scale=feat.pop("_scale", None), tol=TOL)
    feat.pop("_scale", None)
    ctx.check(ok, op, "WRONG", lambda: f"{op} on {holder}: got {k} shape {g.shape} {np.round(g, 6).tolist()} want shape {want.shape} {np.round(want, 6).tolist()}",
              holder=holder, result=k, **feat)
    if k in ("sptensor", "tensor", "ktensor", "ttensor"):
        ctx.structural(got, op, holder=holder)


def _try(ctx, op, fn, *args, _feat=None, **kw):
    r = ctx.call(op, fn, *args, **kw)
    if not r.ok:
        ctx.check(False, op, "RAISE:" + type(r.exc).__name__, f"{type(r.exc).__name__}: {r.exc} | {r.tb}", **(_feat or {}))
        return None, False
    return r.value, True


# ------------------------------------------------------------------ oracles ----------------
def gen_cases(tier, seed):
    # dense-holder history: every third case reaches its dense operand by growth (subtensor assignment past the extent) instead of the constructor
    for i, case in enumerate(_gen_cases(tier, seed)):
        case["hist"] = "grown" if (i + int(seed)) % 3 == 1 and int(np.prod(case.get("shape", [1]))) <= 2000 else "ctor"
        yield case


def run_case(case, ctx):
    rng = np.random.default_rng(case["cseed"])
    shape = tuple(case["shape"])
    N = len(shape)
    ctx.feat(N=N, has_singleton=bool(1 in shape), w=case["w"], hist=case.get("hist", "ctor"))
    globals()["_w_" + case["w"]](case, ctx, rng, shape, N)


def _w_ttv(case, ctx, rng, shape, N):
    A, H = _ground(case, rng, shape)
    per_mode = [gen.normals(rng, (s,)) for s in shape]
    sel = _selected(case, N)
    ctx.feat(nnzc=_nnzc(A), form=case["form"], ln=case["ln"], sorted_list=(case["lst"] == sorted(case["lst"])),
             all_modes=(len(sel) == N), single=case["single"], sel_singleton=any(shape[m] == 1 for m in sel))
    want = refops.ttv(A, [per_mode[m] for m in sorted(sel)], sorted(sel))
    scale = float(np.max(np.abs(A)) * np.prod([np.max(np.abs(per_mode[m])) * shape[m] for m in sel]) + 1e-300)
    for name, X in H.items():
        op = f"{name}.ttv"
        if case["single"]:
            got, ok = _try(ctx, op, X.ttv, per_mode[sel[0]].copy(), **_desig_kw(case), _feat={"holder": name})
        else:
            got, ok = _try(ctx, op, X.ttv, [v.copy() for v in _mult_list(case, N, per_mode)], **_desig_kw(case), _feat={"holder": name})
        if ok:
            _compare(ctx, op, got, want, name, _scale=scale)


def _w_ttm(case, ctx, rng, shape, N):
    A, H = _ground(case, rng, shape)
    tr = case["transpose"]
    J = [int(rng.integers(1, 4)) for _ in shape]
    per_mode = [gen.normals(rng, (s, j) if tr else (j, s)) for s, j in zip(shape, J)]
    sel = _selected(case, N)
    ctx.feat(nnzc=_nnzc(A), form=case["form"], ln=case["ln"], sorted_list=(case["lst"] == sorted(case["lst"])),
             all_modes=(len(sel) == N), single=case["single"], transpose=tr)
    want = refops.ttm(A, [per_mode[m] for m in sorted(sel)], sorted(sel), transpose=tr)
    scale = float(np.max(np.abs(A)) * np.prod([np.max(np.abs(per_mode[m])) * shape[m] for m in sel]) + 1e-300)
    for name in ("tensor", "sptensor", "ttensor", "ttensor(sparse factors)"):
        if name not in H:
            continue
        X = H[name]
        op = f"{name.split('(')[0]}.ttm"
        if case["single"]:
            got, ok = _try(ctx, op, X.ttm, per_mode[sel[0]].copy(), **_desig_kw(case), transpose=tr, _feat={"holder": name})
        else:
            got, ok = _try(ctx, op, X.ttm, [v.copy() for v in _mult_list(case, N, per_mode)], **_desig_kw(case), transpose=tr, _feat={"holder": name})
        if ok:
            _compare(ctx, op, got, want, name, _scale=scale)


def _w_mttkrp(case, ctx, rng, shape, N):
    A, H = _ground(case, rng, shape)
    n, R = case["n"], case["R"]
    U = [gen.normals(rng, (s, R)) for s in shape]
    w = gen.weight_vector(rng, R)
    ctx.feat(nnzc=_nnzc(A), ukind=case["ukind"], n=n)
    if case["ukind"] == "ktensor":
        Uarg = ttb.ktensor([u.copy() for u in U], w.copy())
        want = refops.mttkrp(A, U, n, weights=w)
    else:
        Uarg = [u.copy() for u in U]
        want = refops.mttkrp(A, U, n)
    for name, X in H.items():
        op = f"{name}.mttkrp"
        got, ok = _try(ctx, op, X.mttkrp, Uarg, n, _feat={"holder": name})
        if ok:
            _compare(ctx, op, got, want, name)


def _w_mttkrps(case, ctx, rng, shape, N):
    A = gen.normals(rng, shape)
    T = gen.mk_tensor(ttb, A, case.get("hist", "ctor"))
    R = case["R"]
    U = [gen.normals(rng, (s, R)) for s in shape]
    w = gen.weight_vector(rng, R, signed=False)
    ctx.feat(ukind=case["ukind"])
    Uarg = ttb.ktensor([u.copy() for u in U], w.copy()) if case["ukind"] == "ktensor" else [u.copy() for u in U]
    got, ok = _try(ctx, "tensor.mttkrps", T.mttkrps, Uarg)
    if not ok:
        return
    ctx.check(len(got) == N, "tensor.mttkrps", "WRONG", f"{len(got)} results for {N} modes")
    for n in range(min(N, len(got))):
        want = refops.mttkrp(A, U, n, weights=(w if case["ukind"] == "ktensor" else None))
        one, ok1 = _try(ctx, "tensor.mttkrp", T.mttkrp, Uarg, n)
        ctx.check(close(got[n], want, tol=TOL), "tensor.mttkrps", "WRONG", f"mode {n} differs from the definition", mode=n)
        if ok1:
            ctx.check(close(got[n], one, tol=TOL), "tensor.mttkrps", "WRONG", f"mode {n} differs from per-mode mttkrp", mode=n, vs="mttkrp")


def _w_ttt(case, ctx, rng, shape, N):
    A = gen.normals(rng, shape)
    B = gen.normals(rng, tuple(case["shapeB"]))
    ad, bd = case["adims"], case["bdims"]
    TA, TB = ttb.tensor(A.copy()), ttb.tensor(B.copy())
    ctx.feat(k=len(ad), NB=B.ndim, full=(len(ad) == N == B.ndim), outer=(len(ad) == 0))
    want = refops.ttt(A, B, ad, bd) if ad else refops.ttt(A, B)
    if not ad:
        got, ok = _try(ctx, "tensor.ttt", TA.ttt, TB)
    elif case["same_dims"]:
        got, ok = _try(ctx, "tensor.ttt", TA.ttt, TB, np.array(ad))
    elif len(ad) == 1 and rng.integers(0, 2):
        got, ok = _try(ctx, "tensor.ttt", TA.ttt, TB, int(ad[0]), int(bd[0]))
    else:
        got, ok = _try(ctx, "tensor.ttt", TA.ttt, TB, np.array(ad), np.array(bd))
    if ok:
        _compare(ctx, "tensor.ttt", got, want, "tensor")


def _w_ttsv(case, ctx, rng, shape, N):
    A = gen.normals(rng, shape)
    v = gen.normals(rng, (shape[0],))
    skip, ver = case["skip"], case["version"]
    ctx.feat(skip=skip, version=ver)
    keep = 0 if skip is None else skip + 1
    want = refops.ttsv(A, v, skip=keep)
    kw = {}
    if skip is not None:
        kw["skip_dim"] = skip
    if ver is not None:
        kw["version"] = ver
    got, ok = _try(ctx, "tensor.ttsv", ttb.tensor(A.copy()).ttsv, v.copy(), **kw)
    if ok:
        _compare(ctx, "tensor.ttsv", got, want, "tensor")


def _holder_of(kindname, rng, shape, fill, hist=None):
    base = {"tensor": "dense", "sptensor": "dense", "ktensor": "kruskal", "ttensor": "tucker", "sumtensor": "sum"}[kindname]
    A, H = _ground({"hist": hist}, rng, shape, base=base, fill=fill)
    return A, H[kindname]


def _w_innerprod(case, ctx, rng, shape, N):
    # operand histories: both constructed, exactly one of them grown by assignment, both grown
    grown = case.get("hist") == "grown"
    sel = (gen.pick(case) // 3) % 3
    ha = "grown" if grown and sel != 0 else None
    hb = "grown" if grown and sel != 1 else None
    ctx.feat(hist_pair=f"{ha or 'ctor'}/{hb or 'ctor'}")
    A, X = _holder_of(case["ka"], rng, shape, case["fill"], ha)
    B, Y = _holder_of(case["kb"], rng, shape, case["fillB"], hb)
    ctx.feat(ka=case["ka"], kb=case["kb"], nnzA=_nnzc(A) if case["ka"] == "sptensor" else "-", nnzB=_nnzc(B) if case["kb"] == "sptensor" else "-")
    want = float(np.sum(A * B))
    scale = float(np.sum(np.abs(A * B))) + 1e-300
    op = f"{case['ka']}.innerprod"
    got, ok = _try(ctx, op, X.innerprod, Y)
    if ok:
        ctx.tag(f"innerprod {case['ka']}x{case['kb']}")
        ctx.check(np.ndim(got) == 0 and close(got, want, scale=scale, tol=TOL), op, "WRONG", f"<X,Y> = {got!r} want {want!r}")


def _w_innerprod_pattern(case, ctx, rng, shape, N):
    size = int(np.prod(shape))
    rel = case["rel"]
    n = int(rng.integers(1, max(2, size // (2 if rel == "disjoint" else 1) + 1)))
    n = min(n, size if rel == "same" else size // 2 if rel == "disjoint" else size - 1)
    ctx.feat(rel=rel, nnz=("0" if n == 0 else "1" if n == 1 else "2+"))
    if n < 1:
        return
    perm = rng.permutation(size)
    la = perm[:n]
    lb = {"same": la, "one-differs": np.concatenate([la[:-1], perm[n:n + 1]]), "disjoint": perm[n:2 * n]}[rel]
    out = []
    for lin in (la, lb):
        lin = lin[rng.permutation(n)]                       # each operand lists its entries in its own order
        subs = np.stack(np.unravel_index(lin, shape), axis=1)
        vals = rng.choice([-3.0, -2.0, -1.0, 1.0, 2.0, 3.0, 5.0], size=(n, 1))
        D = np.zeros(shape)
        D[tuple(subs.T)] = vals[:, 0]
        out.append((D, ttb.sptensor(subs.copy(), vals.copy(), shape)))
    (A, X), (B, Y) = out
    want = float(np.sum(A * B))
    got, ok = _try(ctx, "sptensor.innerprod", X.innerprod, Y)
    if ok:
        ctx.tag(f"innerprod sparse pair, positions {rel}")
        ctx.check(np.ndim(got) == 0 and float(got) == want, "sptensor.innerprod", "WRONG",
                  lambda: f"<X,Y> = {got!r} want {want!r} (integer values; X subs {X.subs.tolist()} vals {X.vals.ravel().tolist()}; Y subs {Y.subs.tolist()} vals {Y.vals.ravel().tolist()})")


def _w_sum_int_ttv(case, ctx, rng, shape, N):
    parts = [rng.integers(-3, 4, size=shape) for _ in range(case["nparts"])]
    vecs = [rng.integers(-2, 3, size=(s_,)) for s_ in shape]
    ST = ttb.sumtensor([ttb.tensor(p_.copy()) for p_ in parts])
    total = sum(parts)
    ctx.feat(parts=case["nparts"], integer_parts=True)
    for k_ in range(1, N + 1):
        # the first k modes, and all of them (a number)
        dims = np.arange(k_)
        want = refops.ttv(total.astype(float), [vecs[m].astype(float) for m in range(k_)], list(range(k_)))
        got, ok = _try(ctx, "sumtensor.ttv", ST.ttv, [v.copy() for v in vecs[:k_]], dims)
        if ok:
            g_ = float(got) if np.ndim(got) == 0 and not hasattr(got, "parts") else denote(got)
            ctx.check(np.shape(g_) == np.shape(want) and bool(np.all(np.asarray(g_) == np.asarray(want))), "sumtensor.ttv", "WRONG",
                      lambda: f"integer parts, modes 0..{k_ - 1}: got {np.asarray(g_).tolist()} want {np.asarray(want).tolist()}")


def _w_norm(case, ctx, rng, shape, N):
    A, X = _holder_of(case["ka"], rng, shape, case["fill"])
    ctx.feat(ka=case["ka"], nnzc=_nnzc(A))
    want = float(np.sqrt(np.sum(A * A)))
    op = f"{case['ka']}.norm"
    got, ok = _try(ctx, op, X.norm)
    if ok:
        # Kruskal/Tucker norms come from Gram formulas: sqrt of a cancellation-prone sum -> absolute bound on the square
        sq = float(np.sum(np.abs(A)) ** 2) + 1e-300
        ctx.check(np.ndim(got) == 0 and abs(float(got) ** 2 - want ** 2) <= 1e-9 * max(sq, want ** 2), op, "WRONG", f"norm {got!r} want {want!r}")


def _w_zero_norm(case, ctx, rng, shape, N):
    ctx.feat(ka=case["ka"], zero_by_cancellation=True)
    U = [rng.standard_normal((s_, 2)) for s_ in shape]
    c = rng.standard_normal(shape[-1])
    U[-1] = np.stack([c, c], axis=1)                       # the last factor has two identical columns ...
    if case["ka"] == "ktensor":
        lam = float(rng.uniform(0.5, 2.0))
        Uk = [np.stack([u[:, 0], u[:, 0]], axis=1) for u in U[:-1]] + [U[-1]]
        X = ttb.ktensor([u.copy() for u in Uk], np.array([lam, -lam]))               # ... and the two components cancel
        scale = lam * float(np.prod([np.linalg.norm(u[:, 0]) for u in Uk]))
    else:
        core = rng.standard_normal((2,) * N)
        core = core - np.flip(core, axis=-1) * 0.0
        core[..., 1] = -core[..., 0]                         # ... and the core cancels along that mode
        X = ttb.ttensor(ttb.tensor(core.copy()), [u.copy() for u in U])
        scale = float(np.linalg.norm(core)) * float(np.prod([np.linalg.norm(u, 2) for u in U]))
    A = denote(X)
    if float(np.max(np.abs(A))) > 1e-9 * scale:
        raise AssertionError("generator: the cancelling construction does not denote (numerically) zero")
    op = f"{case['ka']}.norm"
    got, ok = _try(ctx, op, X.norm)
    if ok:
        ctx.check(np.ndim(got) == 0 and np.isfinite(float(got)) and 0.0 <= float(got) <= 1e-6 * scale, op, "WRONG",
                  f"norm of a tensor that denotes zero (parts of size {scale:.3g}): {got!r}")


def _w_longsparse(case, ctx, rng, shape, N):
    L = int(np.argmax(shape))
    others = [d for d in range(N) if d != L]
    A = np.zeros(shape)
    k = case["nnz"]
    # k entries on at most k - 1 distinct positions of the long mode (at least two share one)
    pos = [int(x) for x in rng.choice(shape[L], size=max(1, k - 1), replace=False)]
    pos.append(pos[0])
    seen = set()
    for j in pos[:k]:
        for _try_ in range(20):
            idx = [int(rng.integers(0, s_)) for s_ in shape]
            idx[L] = j
            if tuple(idx) not in seen:
                seen.add(tuple(idx))
                A[tuple(idx)] = float(rng.choice([1.0, 2.0, -1.5, 3.0, 0.5]))
                break
    nnz = int(np.count_nonzero(A))
    ctx.feat(nnzc=_nnzc(A), long_mode=L, few=bool(nnz <= shape[L] // 2))
    S = gen.mk_sptensor(ttb, A, gen.stored_order(rng, nnz, "shuffled"))
    T = ttb.tensor(A.copy())
    vecs = [gen.normals(rng, (shape[d],)) for d in others]
    want = refops.ttv(A, vecs, others)
    for name, X in (("tensor", T), ("sptensor", S)):
        got, ok = _try(ctx, f"{name}.ttv", X.ttv, [v.copy() for v in vecs], np.array(others), _feat={"holder": name})
        if ok:
            _compare(ctx, f"{name}.ttv", got, want, name)
    R = 2
    U = [gen.normals(rng, (s_, R)) for s_ in shape]
    for n in (L, others[0]):
        wantm = refops.mttkrp(A, U, n)
        for name, X in (("tensor", T), ("sptensor", S)):
            got, ok = _try(ctx, f"{name}.mttkrp", X.mttkrp, [u.copy() for u in U], n, _feat={"holder": name})
            if ok:
                _compare(ctx, f"{name}.mttkrp", got, wantm, name)
    # the same sparse array as the core of a Tucker tensor
    fm = [gen.normals(rng, (int(rng.integers(1, 4)), s_)) for s_ in shape]
    TT = ttb.ttensor(gen.mk_sptensor(ttb, A, gen.stored_order(rng, nnz, "shuffled")), [f.copy() for f in fm])
    At = denote(TT)
    tv = [gen.normals(rng, (f.shape[0],)) for f in fm]
    got, ok = _try(ctx, "ttensor.ttv", TT.ttv, [tv[d].copy() for d in others], np.array(others), _feat={"holder": "ttensor(sparse core)"})
    if ok:
        _compare(ctx, "ttensor.ttv", got, refops.ttv(At, [tv[d] for d in others], others), "ttensor")
    Ut = [gen.normals(rng, (f.shape[0], R)) for f in fm]
    got, ok = _try(ctx, "ttensor.mttkrp", TT.mttkrp, [u.copy() for u in Ut], L, _feat={"holder": "ttensor(sparse core)"})
    if ok:
        _compare(ctx, "ttensor.mttkrp", got, refops.mttkrp(At, Ut, L), "ttensor")


def _w_contract(case, ctx, rng, shape, N):
    A, H = _ground(case, rng, shape, base="dense")
    i, j = case["i"], case["j"]
    want = refops.contract(A, i, j)
    ctx.feat(nnzc=_nnzc(A), fill=case["fill"], two_way=(N == 2))
    for name in ("tensor", "sptensor"):
        op = f"{name}.contract"
        got, ok = _try(ctx, op, H[name].contract, i, j, _feat={"holder": name})
        if ok:
            _compare(ctx, op, got, want, name)


def _reducers(name):
    return {"sum": sum, "npsum": np.sum, "max": np.max, "min": np.min, "prod": np.prod,
            "sumsq": (lambda v: float(np.sum(np.asarray(v) ** 2))), "mean": np.mean, "halfsum": (lambda v: 0.5 * float(np.sum(v))),
            "rms": (lambda v: float(np.sqrt(np.mean(np.asarray(v, dtype=float) ** 2))))}[name]


def _w_collapse(case, ctx, rng, shape, N):
    A, H = _ground(case, rng, shape, base="dense")
    dims, red = case["dims"], case["red"]
    vt = case.get("vtype", "float")
    if vt != "float":
        # the same kind of data held in an integer element type: a reducer's value is whatever the reducer returns (fractions included)
        Ai = np.round(np.abs(A) * 3.0 if vt == "uint8" else A * 3.0).astype(vt)
        A = Ai.astype(float)
        H = dict(H, tensor=ttb.tensor(Ai.copy()))
    ctx.feat(vtype=vt)
    fun = _reducers(red)
    sel = list(range(N)) if dims is None else dims
    ctx.feat(nnzc=_nnzc(A), red=red, all_modes=(len(sel) == N), default_dims=(dims is None), nrem=N - len(sel))
    kw = {} if dims is None else {"dims": np.array(dims, dtype=int)}
    want = refops.collapse(A, sel, (np.sum if red in ("sum", "npsum") else fun))
    r, ok = _try(ctx, "tensor.collapse", H["tensor"].collapse, **kw, **({} if red == "sum" else {"fun": fun}), _feat={"holder": "tensor"})
    if ok:
        _compare(ctx, "tensor.collapse", r, want, "tensor")
    # sparse holder: reducers are applied to stored values; judged where implicit zeros are neutral for the reducer
    As = np.abs(A) if red == "max" else (-np.abs(A) if red == "min" else A)
    if red in ("prod", "mean", "rms"):
        return
    if int(np.count_nonzero(As)) == 0 and red in ("max", "min"):
        return  # reducer over an empty value list is undefined for max/min
    S = gen.mk_sptensor(ttb, As, gen.stored_order(rng, int(np.count_nonzero(As)), "shuffled"))
    wants = refops.collapse(As, sel, (np.sum if red in ("sum", "npsum") else fun))
    r, ok = _try(ctx, "sptensor.collapse", S.collapse, **kw, **({} if red == "sum" else {"function_handle": fun}), _feat={"holder": "sptensor"})
    if ok:
        _compare(ctx, "sptensor.collapse", r, wants, "sptensor")


def _w_scale(case, ctx, rng, shape, N):
    A, H = _ground(case, rng, shape, base="dense")
    dims = case["dims"]
    fk = case["fkind"]
    fshape = tuple(shape[d] for d in dims)
    F = gen.normals(rng, fshape)
    ctx.feat(nnzc=_nnzc(A), fkind=fk, ndims_scaled=len(dims))
    want = np.einsum(refops.LETTERS[:N] + "," + "".join(refops.LETTERS[d] for d in dims) + "->" + refops.LETTERS[:N], A, F)
    for name in ("tensor", "sptensor"):
        if fk == "ndarray":
            if len(dims) != 1 and name != "tensor":
                continue
            # a plain array factor over several modes, in either memory layout (the layout is not part of the meaning)
            farg = F.copy() if gen.pick(case) % 2 else np.asfortranarray(F)
        elif fk == "tensor":
            farg = ttb.tensor(F.copy())
        else:
            if name == "tensor":
                continue
            Fs = gen.sparsify(rng, F, "half+")
            farg = gen.mk_sptensor(ttb, Fs)
            want = np.einsum(refops.LETTERS[:N] + "," + "".join(refops.LETTERS[d] for d in dims) + "->" + refops.LETTERS[:N], A, Fs)
        op = f"{name}.scale"
        got, ok = _try(ctx, op, H[name].scale, farg, np.array(dims, dtype=int), _feat={"holder": name})
        if ok:
            _compare(ctx, op, got, want, name)


def _w_mask(case, ctx, rng, shape, N):
    A, H = _ground(case, rng, shape, base="dense")
    Wd = gen.sparsify(rng, np.ones(shape), case["wfill"])
    wsubs = np.argwhere(Wd != 0)
    ctx.feat(nnzc=_nnzc(A), wfill=case["wfill"])
    # dense.mask(dense W): values of X at the nonzeros of W (in the order W.find() lists them)
    Wt = ttb.tensor(Wd.copy())
    got, ok = _try(ctx, "tensor.mask", H["tensor"].mask, Wt)
    if ok:
        fs, _ = Wt.find()
        want = A[tuple(np.asarray(fs).T)] if len(wsubs) else np.zeros((0,))
        ctx.check(close(np.asarray(got).reshape(-1), want, tol=0), "tensor.mask", "WRONG", "mask values differ from X at W's nonzeros")
    # Kruskal mask with dense and sparse W
    w, fm = gen.rand_ktensor_parts(rng, shape, 2)
    K = gen.mk_ktensor(ttb, w, fm)
    AK = denote(K)
    for wk, Wobj in (("tensor", Wt), ("sptensor", gen.mk_sptensor(ttb, Wd, gen.stored_order(rng, len(wsubs), "shuffled")))):
        got, ok = _try(ctx, "ktensor.mask", K.mask, Wobj, _feat={"wkind": wk})
        if ok:
            fs, _ = Wobj.find()
            want = AK[tuple(np.asarray(fs).T)] if len(wsubs) else np.zeros((0,))
            ctx.check(close(np.asarray(got).reshape(-1), want, tol=TOL), "ktensor.mask", "WRONG", "Kruskal mask differs", wkind=wk)


def _w_reconstruct(case, ctx, rng, shape, N):
    ranks = [int(rng.integers(1, 3)) for _ in shape]
    core, fm = gen.rand_ttensor_parts(rng, shape, ranks)
    TT = gen.mk_ttensor(ttb, core, fm)
    A = denote(TT)
    sparse_f = bool(rng.integers(0, 3) == 0)
    ctx.feat(sparse_factors=sparse_f)
    if sparse_f:
        from scipy import sparse as sp

        TT = ttb.ttensor(TT.core.copy(), [sp.coo_matrix(np.asarray(f, dtype=float)) for f in fm])
    got, ok = _try(ctx, "ttensor.reconstruct", TT.reconstruct)
    if ok:
        _compare(ctx, "ttensor.reconstruct", got, A, "ttensor", form="full")
    modes = sorted(int(x) for x in rng.permutation(N)[: case["nmodes"]])
    want = A
    samples = []
    for m in modes:
        if case["matrix"]:
            M = gen.normals(rng, (int(rng.integers(1, 3)), shape[m]))
            samples.append(M)
            want = refops.ttm(want, [M], [m])
        else:
            idx = rng.integers(0, shape[m], size=int(rng.integers(1, 4)))
            samples.append(idx)
            want = np.take(want, idx, axis=m)
    ctx.feat(matrix=case["matrix"])
    got, ok = _try(ctx, "ttensor.reconstruct", TT.reconstruct, [s.copy() for s in samples], list(modes))
    if ok:
        _compare(ctx, "ttensor.reconstruct", got, want, "ttensor", form="partial")


def _w_tenmat_mul(case, ctx, rng, shape, N):
    A = gen.normals(rng, shape)
    B = gen.normals(rng, tuple(case["shapeB"]))
    ra = sorted(int(x) for x in rng.permutation(N)[: int(rng.integers(0, N + 1))])
    ca = [m for m in range(N) if m not in ra]
    nb = B.ndim
    # choose B's row modes so that sizes match A's column modes
    Bshape = list(B.shape)
    rb = list(range(min(len(ca), nb)))
    if len(rb) != len(ca):
        return
    for k, m in enumerate(ca):
        Bshape[rb[k]] = shape[m]
    B = gen.normals(rng, tuple(Bshape))
    cb = [m for m in range(nb) if m not in rb]
    MA = ttb.tensor(A.copy()).to_tenmat(np.array(ra, dtype=int), np.array(ca, dtype=int))
    MB = ttb.tensor(B.copy()).to_tenmat(np.array(rb, dtype=int), np.array(cb, dtype=int))
    got, ok = _try(ctx, "tenmat.__mul__", MA.__mul__, MB)
    if ok:
        want = np.tensordot(A, B, axes=(ca, rb)) if ca else np.multiply.outer(A, B)
        want = np.transpose(want, list(np.argsort(ra + [N + c for c in cb]))) if False else want
        # result modes: A's row modes (in ra order), then B's column modes (in cb order)
        _compare(ctx, "tenmat.__mul__", got, np.asarray(want), "tenmat")


def _w_basis(case, ctx, rng, shape, N):
    """One-hot tensor x every one-hot multiplicand: the multilinear maps on basis elements."""
    A = np.zeros(shape)
    A.reshape(-1)[case["cell"]] = 1.0
    H = {"tensor": ttb.tensor(A.copy()), "sptensor": gen.mk_sptensor(ttb, A)}
    for d in range(N):
        for e in range(shape[d]):
            v = np.zeros(shape[d])
            v[e] = 1.0
            want = refops.ttv(A, [v], [d])
            for name, X in H.items():
                got, ok = _try(ctx, f"{name}.ttv", X.ttv, v.copy(), d, _feat={"holder": name})
                if ok:
                    _compare(ctx, f"{name}.ttv", got, want, name, basis=True)
            M = np.zeros((2, shape[d]))
            M[1, e] = 1.0
            wantm = refops.ttm(A, [M], [d])
            for name, X in H.items():
                got, ok = _try(ctx, f"{name}.ttm", X.ttm, M.copy(), d, _feat={"holder": name})
                if ok:
                    _compare(ctx, f"{name}.ttm", got, wantm, name, basis=True)
    for cell2 in range(A.size):
        B = np.zeros(shape)
        B.reshape(-1)[cell2] = 1.0
        for name, X in H.items():
            for nb, Y in (("tensor", ttb.tensor(B.copy())), ("sptensor", gen.mk_sptensor(ttb, B))):
                got, ok = _try(ctx, f"{name}.innerprod", X.innerprod, Y, _feat={"holder": name, "kb": nb})
                if ok:
                    ctx.check(float(got) == float(cell2 == case["cell"]), f"{name}.innerprod", "WRONG", "basis inner product", basis=True)
    for d in range(N):
        want = refops.collapse(A, [d], np.sum)
        for name, X in H.items():
            got, ok = _try(ctx, f"{name}.collapse", X.collapse, np.array([d]), _feat={"holder": name})
            if ok:
                _compare(ctx, f"{name}.collapse", got, want, name, basis=True)
    for i, j in itertools.permutations(range(N), 2):
        if shape[i] == shape[j]:
            want = refops.contract(A, i, j)
            for name, X in H.items():
                got, ok = _try(ctx, f"{name}.contract", X.contract, i, j, _feat={"holder": name})
                if ok:
                    _compare(ctx, f"{name}.contract", got, want, name, basis=True)
