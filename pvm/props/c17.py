"""C17 -- index arithmetic, row-set helpers, mode-selection preprocessing and Khatri-Rao obey their laws."""
import itertools

import numpy as np

from .. import load
from .. import gen, refops
from ..denote import same, close

np_, ttb = load()
from pyttb import pyttb_utils as U  # noqa: E402

ID = "C17"
RULE = ("case = (helper, arguments): every shape with <= 64 cells (N<=4) enumerated completely for sub2ind/ind2sub; every "
        "N<=5 x dims / exclude_dims subset in ascending and shuffled order x M in {None,|dims|,N} for tt_dimscheck; integer "
        "row matrices over a small alphabet (repeats and overlaps frequent, empty operands) for the row helpers; 1..4 matrices "
        "for Khatri-Rao; non-trivial = not both operands empty / >= 2 cells; distinct = hash of the serialised case")
ANCHORS = [
    "pyttb_utils:tt_sub2ind", "pyttb_utils:tt_ind2sub", "pyttb_utils:tt_dimscheck", "pyttb_utils:tt_ismember_rows",
    "pyttb_utils:tt_intersect_rows", "pyttb_utils:tt_setdiff_rows", "pyttb_utils:tt_union_rows", "khatrirao:khatrirao",
    "pyttb_utils:parse_one_d",
]
EXHAUSTIVE = {
    "quick": {"shapes with <= 64 cells, N<=4, sizes 1..8: all subscripts / linear indices": "complete",
              "tt_dimscheck N<=4: all subsets x (ascending + 1 shuffle) x M": "complete"},
    "thorough": {"shapes with <= 64 cells, N<=4": "complete", "tt_dimscheck N<=5: all subsets x all orders (<=24) x M": "complete",
                 "row matrices: all pairs of row lists of length <= 3 over alphabet {0,1} with 1 column and length <=2 with 2 columns": "complete"},
}
NPINT_ARGS = True     # a quarter of the cases pass their integer arguments as NumPy integers (core.Ctx.begin)
STRIDED_ARGS = True   # a quarter of the cases pass every array argument as a strided, non-contiguous view (core.Ctx.begin)
WATCHDOG = {"quick": 600, "thorough": 3000}


def nontrivial(case):
    if case["w"] == "rows":
        return len(case["A"]) + len(case["B"]) > 0
    return True


def _shapes64():
    out = []
    for N in range(1, 5):
        for shp in itertools.product(range(1, 9), repeat=N):
            if np.prod(shp) <= 64 and (N < 4 or max(shp) <= 4):
                out.append(shp)
    return out


def gen_cases(tier, seed):
    rng = gen.rng_for(seed, ID, tier)
    for shp in _shapes64():
        yield {"w": "index", "shape": list(shp)}
    for _ in range(10 if tier == "quick" else 100):
        N = int(rng.integers(1, 6))
        shp = gen.rand_shape(rng, N, 1, 7)
        k = int(rng.integers(1, 40))
        lin = rng.integers(0, int(np.prod(shp)), size=k)
        yield {"w": "index_random", "shape": list(shp), "lin": lin.tolist()}
    # index lists as long as the index space: permutations of the full range (also with the end points in place), the reversed range,
    # the full range with one entry repeated
    for _ in range(12 if tier == "quick" else 120):
        N = int(rng.integers(1, 4))
        shp = gen.rand_shape(rng, N, 1, 4)
        size = int(np.prod(shp))
        full = np.arange(size)
        perm = rng.permutation(size)
        inner = full.copy()
        if size > 3:
            inner[1:-1] = rng.permutation(inner[1:-1])
        rep = full.copy()
        rep[int(rng.integers(0, size))] = int(rng.integers(0, size))
        for lin in (perm, inner, full[::-1].copy(), rep):
            yield {"w": "index_random", "shape": list(shp), "lin": [int(x) for x in lin], "full_length": True}
    # subscripts held in narrow integer types and index spaces beyond their range (the linear index must not inherit the type), both
    # memory orders; very large index spaces in int64
    wide = [("int8", [10, 13]), ("int8", [100, 100]), ("uint8", [200, 3]), ("int16", [300, 200]), ("uint16", [50000, 3, 2]), ("int32", [70000, 70000]),
            ("int32", [2, 3, 4]), ("int64", [2 ** 31, 2 ** 31]), ("int64", [3, 2 ** 40, 5]), ("int16", [7, 9, 11, 13, 17])]
    for dt, shp in wide:
        for order in ("F", "C"):
            for _ in range(1 if tier == "quick" else 6):
                yield {"w": "index_wide", "shape": shp, "dtype": dt, "order": order, "k": int(rng.integers(1, 30)), "cseed": int(rng.integers(0, 2 ** 31))}
    # row-set helpers well beyond toy sizes (any blocking / chunking of the comparison must be invisible)
    for na, nb, ncol in ([(5000, 3500, 2), (20000, 900, 1)] if tier == "quick" else [(5000, 3500, 2), (20000, 900, 1), (3000, 3000, 3), (9000, 2500, 2), (60000, 300, 1)]):
        yield {"w": "rows_large", "na": na, "nb": nb, "ncol": ncol, "cseed": int(rng.integers(0, 2 ** 31))}
    # both operands the same rows in the same order (the same object, or an equal copy), with and without repeated rows
    for ncol in (1, 2, 3):
        for _ in range(4 if tier == "quick" else 30):
            k = int(rng.integers(1, 6))
            A = rng.integers(0, 3, size=(k, ncol))
            if rng.random() < 0.7 and k >= 2:
                A[int(rng.integers(1, k))] = A[0]
            for same_ in ("object", "copy"):
                yield {"w": "rows", "A": A.tolist(), "B": A.tolist(), "ncol": ncol, "same": same_}
    # tt_dimscheck
    maxN = 4 if tier == "quick" else 5
    for N in range(1, maxN + 1):
        for sub in gen.nonempty_subsets(N) + [[]]:
            orders = [list(sub)]
            if len(sub) > 1:
                allp = [list(p) for p in itertools.permutations(sub)]
                # every order of up to three modes; beyond that the sorted order, a rotation (not its own inverse), a drawn order and the
                # reversal (thorough: all orders of four modes too)
                orders = allp if (len(allp) <= 6 or (tier == "thorough" and len(allp) <= 24)) else \
                    [list(sub), list(sub[1:]) + list(sub[:1]), [int(x) for x in rng.permutation(sub)], list(reversed(sub))]
            for dims in orders:
                for how in ("dims", "exclude"):
                    if how == "dims" and not dims:
                        # an explicitly empty selection (list / tuple / array) selects nothing, with or without one multiplicand per mode
                        for M in (None, N):
                            for form in ("list", "tuple", "array"):
                                yield {"w": "dimscheck", "N": N, "how": "dims", "dims": [], "M": M, "empty_form": form}
                        continue
                    P = len(dims) if how == "dims" else N - len(dims)
                    for M in sorted({None, P, N}, key=lambda x: -1 if x is None else x):
                        if M == 0:
                            continue
                        yield {"w": "dimscheck", "N": N, "how": how, "dims": dims, "M": M}
        yield {"w": "dimscheck", "N": N, "how": "none", "dims": [], "M": None}
        yield {"w": "dimscheck", "N": N, "how": "none", "dims": [], "M": N}
        for d in range(N):
            yield {"w": "dimscheck", "N": N, "how": "scalar", "dims": [d], "M": 1}
    # row helpers
    if tier == "thorough":
        rows1 = [list(p) for k in range(0, 4) for p in itertools.product([[0], [1]], repeat=k)]
        for A in rows1:
            for B in rows1:
                yield {"w": "rows", "A": A, "B": B, "ncol": 1}
        alpha2 = [[0, 0], [0, 1], [1, 0]]
        rows2 = [list(p) for k in range(0, 3) for p in itertools.product(alpha2, repeat=k)]
        for A in rows2:
            for B in rows2:
                yield {"w": "rows", "A": A, "B": B, "ncol": 2}
    for _ in range(400 if tier == "quick" else 4000):
        ncol = int(rng.integers(1, 4))
        hi = int(rng.integers(2, 4))
        na, nb = int(rng.integers(0, 7)), int(rng.integers(0, 7))
        # integer rows: a small alphabet (so that rows repeat and coincide), non-negative or centred on zero (negative entries)
        lo = 0 if rng.random() < 0.6 else -int(rng.integers(1, 3))
        A = rng.integers(lo, hi + (2 if lo < 0 else 0), size=(na, ncol))
        B = rng.integers(lo, hi + (2 if lo < 0 else 0), size=(nb, ncol))
        if rng.random() < 0.3 and na:
            A = np.unique(A, axis=0)
            A = A[rng.permutation(A.shape[0])]
        if rng.random() < 0.3 and nb:
            B = np.unique(B, axis=0)
            B = B[rng.permutation(B.shape[0])]
        yield {"w": "rows", "A": A.tolist(), "B": B.tolist(), "ncol": ncol}
    # Khatri-Rao
    for _ in range(80 if tier == "quick" else 800):
        k = int(rng.integers(1, 5))
        R = int(rng.integers(1, 5))
        mats = [gen.normals(rng, (int(rng.integers(1, 5)), R)).tolist() for _ in range(k)]
        yield {"w": "khatrirao", "mats": mats, "R": R}


def _rows(x, ncol):
    a = np.array(x, dtype=int)
    return a.reshape(-1, ncol) if a.size else np.zeros((0, ncol), dtype=int)


def run_case(case, ctx):
    w = case["w"]
    if w == "index":
        shape = tuple(case["shape"])
        size = int(np.prod(shape))
        grid = np.indices(shape).reshape(len(shape), -1).T  # all subscripts, some order
        want = refops.lin_ff(tuple(grid.T), shape)
        got = ctx.must("tt_sub2ind", U.tt_sub2ind, shape, grid.copy())
        ctx.check(same(np.asarray(got).reshape(-1), want), "tt_sub2ind", "WRONG", f"shape {shape}: sub2ind differs from first-index-fastest formula")
        ctx.check(sorted(np.asarray(got).reshape(-1).tolist()) == list(range(size)), "tt_sub2ind", "WRONG", "not a bijection onto 0..size-1")
        lin = np.arange(size)
        subs = ctx.must("tt_ind2sub", U.tt_ind2sub, shape, lin.copy())
        wantsubs = np.stack(refops.unlin_ff(lin, shape), axis=1)
        ctx.check(same(np.asarray(subs), wantsubs), "tt_ind2sub", "WRONG", f"shape {shape}: ind2sub differs from first-index-fastest formula")
        back = ctx.must("tt_sub2ind", U.tt_sub2ind, shape, np.asarray(subs).copy())
        ctx.check(same(np.asarray(back).reshape(-1), lin), "tt_sub2ind", "WRONG", "sub2ind(ind2sub(i)) != i", roundtrip=True)
        # single subscript row / single index forms
        k = size // 2
        one = ctx.must("tt_ind2sub", U.tt_ind2sub, shape, np.array([k]))
        ctx.check(same(np.asarray(one).reshape(-1), wantsubs[k]), "tt_ind2sub", "WRONG", "single index form")
    elif w == "index_random":
        shape = tuple(case["shape"])
        lin = np.array(case["lin"], dtype=int)
        subs = ctx.must("tt_ind2sub", U.tt_ind2sub, shape, lin.copy())
        wantsubs = np.stack(refops.unlin_ff(lin, shape), axis=1)
        ctx.check(same(np.asarray(subs), wantsubs), "tt_ind2sub", "WRONG", "ind2sub differs (random indices with repeats)")
        back = ctx.must("tt_sub2ind", U.tt_sub2ind, shape, wantsubs.copy())
        ctx.check(same(np.asarray(back).reshape(-1), lin), "tt_sub2ind", "WRONG", "sub2ind differs (random)")
    elif w == "index_wide":
        shape = tuple(int(x) for x in case["shape"])
        rng = np.random.default_rng(case["cseed"])
        dt = np.dtype(case["dtype"])
        order = case["order"]
        ctx.feat(dtype=case["dtype"], order=order, beyond_dtype=bool(int(np.prod([int(x) for x in shape], dtype=object)) > np.iinfo(dt).max))
        subs_py = [[int(rng.integers(0, min(s_, np.iinfo(dt).max + 1))) for s_ in shape] for _ in range(case["k"])]
        subs_py.append([min(s_, np.iinfo(dt).max + 1) - 1 for s_ in shape])          # the far corner that is still representable
        subs = np.array(subs_py, dtype=dt)

        def lin(sub):
            v, mul = 0, 1
            for s_, x in (zip(shape, sub) if order == "F" else zip(reversed(shape), reversed(sub))):
                v += x * mul
                mul *= s_
            return v
        want = [lin(sub) for sub in subs_py]
        r = ctx.call("tt_sub2ind", U.tt_sub2ind, shape, subs.copy(), **({} if order == "F" else {"order": "C"}))
        if not r.ok:
            ctx.check(False, "tt_sub2ind", "RAISE:" + type(r.exc).__name__, f"{type(r.exc).__name__}: {r.exc}")
            return
        got = [int(x) for x in np.asarray(r.value).reshape(-1)]
        ctx.check(got == want, "tt_sub2ind", "WRONG", f"shape {shape} {case['dtype']} subscripts {subs_py[:3]}...: linear indices {got[:3]} want {want[:3]} (exact integer arithmetic)")
        r2 = ctx.call("tt_ind2sub", U.tt_ind2sub, shape, np.array(want, dtype=np.int64), **({} if order == "F" else {"order": "C"}))
        if r2.ok:
            ctx.check(np.asarray(r2.value).astype(object).tolist() == subs_py, "tt_ind2sub", "WRONG", f"shape {shape}: ind2sub of the exact linear indices does not return the subscripts")
        else:
            ctx.check(False, "tt_ind2sub", "RAISE:" + type(r2.exc).__name__, f"{type(r2.exc).__name__}: {r2.exc}")
    elif w == "rows_large":
        rng = np.random.default_rng(case["cseed"])
        na, nb, ncol = case["na"], case["nb"], case["ncol"]
        hi = int((nb * 1.6) ** (1.0 / ncol)) + 2
        B = np.unique(rng.integers(0, hi, size=(nb, ncol)), axis=0)
        B = B[rng.permutation(B.shape[0])]
        A = rng.integers(0, hi, size=(na, ncol))
        where = {tuple(row): i for i, row in enumerate(B.tolist())}
        ctx.feat(ncol=ncol, compares=("2^24+" if na * B.size > 2 ** 24 else "small"))
        r = ctx.call("tt_ismember_rows", U.tt_ismember_rows, A.copy(), B.copy())
        if r.ok:
            matched, loc = r.value
            wl = np.array([where.get(tuple(row), -1) for row in A.tolist()])
            ctx.check(len(matched) == na and bool(np.array_equal(np.asarray(loc).reshape(-1), wl)) and bool(np.array_equal(np.asarray(matched).reshape(-1).astype(bool), wl >= 0)),
                      "tt_ismember_rows", "WRONG", lambda: f"{na} search rows against {B.shape[0]} distinct rows: first mismatch at search row "
                      f"{int(np.nonzero((np.asarray(loc).reshape(-1) != wl) | (np.asarray(matched).reshape(-1).astype(bool) != (wl >= 0)))[0][0])}")
        else:
            ctx.check(False, "tt_ismember_rows", "RAISE:" + type(r.exc).__name__, f"{r.exc}")
        Au = np.unique(A, axis=0)
        Au = Au[rng.permutation(Au.shape[0])]
        sa = [tuple(x) for x in Au.tolist()]
        for op, fn, wantset in (("tt_intersect_rows", U.tt_intersect_rows, set(sa) & set(where)), ("tt_setdiff_rows", U.tt_setdiff_rows, set(sa) - set(where))):
            r = ctx.call(op, fn, Au.copy(), B.copy())
            if not r.ok:
                ctx.check(False, op, "RAISE:" + type(r.exc).__name__, f"{r.exc}")
                continue
            idx = [int(i) for i in np.asarray(r.value).reshape(-1)]
            ok = all(0 <= i < len(sa) for i in idx) and len(set(idx)) == len(idx) and {sa[i] for i in idx} == wantset
            ctx.check(ok, op, "WRONG", f"{len(sa)} rows against {B.shape[0]}: selected {len(idx)} rows, want {len(wantset)}")
    elif w == "dimscheck":
        N, how, dims, M = case["N"], case["how"], case["dims"], case["M"]
        kw = {}
        if how == "dims":
            kw["dims"] = np.array(dims, dtype=int)
            sel = list(dims)
        elif how == "scalar":
            kw["dims"] = int(dims[0])
            sel = list(dims)
        elif how == "exclude":
            kw["exclude_dims"] = np.array(dims, dtype=int)
            sel = [m for m in range(N) if m not in dims]
        else:
            sel = list(range(N))
        ctx.feat(how=how, sorted_dims=(sel == sorted(sel)), full=(len(sel) == N))
        if not sel and how == "dims":
            kw["dims"] = {"list": [], "tuple": (), "array": np.array([], dtype=int)}[case.get("empty_form", "array")]
            r = ctx.call("tt_dimscheck", U.tt_dimscheck, N, M, **kw)
            if not r.ok:
                ctx.check(False, "tt_dimscheck", "RAISE:" + type(r.exc).__name__, f"N={N} M={M} empty selection: {r.exc}", selection="empty")
                return
            sdims, vidx = r.value
            ctx.check(np.size(sdims) == 0 and (vidx is None if M is None else np.size(vidx) == 0), "tt_dimscheck", "WRONG",
                      f"N={N} M={M} dims={kw['dims']!r}: an empty selection gives modes {sdims}, multiplicand positions {vidx}", selection="empty")
            return
        if not sel:
            return
        r = ctx.call("tt_dimscheck", U.tt_dimscheck, N, M, **kw)
        if not r.ok:
            ctx.check(False, "tt_dimscheck", "RAISE:" + type(r.exc).__name__, f"N={N} M={M} {kw}: {r.exc}")
            return
        sdims, vidx = r.value
        ctx.check(list(np.asarray(sdims)) == sorted(sel), "tt_dimscheck", "WRONG", f"N={N} {kw}: modes {sdims} want {sorted(sel)}")
        if M is None:
            ctx.check(vidx is None, "tt_dimscheck", "WRONG", "vidx should be None without multiplicands")
        else:
            P = len(sel)
            if M == P:
                # multiplicands are listed in the order of the selected modes as given
                want = [sel.index(m) for m in sorted(sel)]
            else:
                want = sorted(sel)
            ctx.check(vidx is not None and list(np.asarray(vidx)) == want, "tt_dimscheck", "WRONG",
                      f"N={N} M={M} {kw}: multiplicand positions {vidx} want {want}")
    elif w == "rows":
        ncol = case["ncol"]
        A, B = _rows(case["A"], ncol), _rows(case["B"], ncol)
        if case.get("same") == "object":
            B = A                      # the very same array as both operands
        elif case.get("same") == "copy":
            B = A.copy()
        if case.get("same"):
            case = dict(case, B=case["A"])
            ctx.feat(same=case["same"])

        def _pair():
            if case.get("same") == "object":
                X_ = A.copy()
                return X_, X_
            return A.copy(), B.copy()
        sa = [tuple(r) for r in A.tolist()]
        sb = [tuple(r) for r in B.tolist()]
        ctx.feat(a_repeats=(len(set(sa)) != len(sa)), b_repeats=(len(set(sb)) != len(sb)), a_empty=(len(sa) == 0), b_empty=(len(sb) == 0))
        # membership
        r = ctx.call("tt_ismember_rows", U.tt_ismember_rows, *_pair())
        if r.ok:
            matched, loc = r.value
            ok = len(matched) == len(sa) and len(loc) == len(sa)
            for i, row in enumerate(sa):
                if not ok:
                    break
                if row in sb:
                    ok = bool(matched[i]) and 0 <= loc[i] < len(sb) and sb[int(loc[i])] == row
                else:
                    ok = (not matched[i]) and loc[i] == -1
            ctx.check(ok, "tt_ismember_rows", "WRONG", f"A={sa} B={sb}: matched {matched} loc {loc}")
        else:
            ctx.check(False, "tt_ismember_rows", "RAISE:" + type(r.exc).__name__, f"A={sa} B={sb}: {r.exc}")
        for op, fn, wantset in (("tt_intersect_rows", U.tt_intersect_rows, set(sa) & set(sb)),
                                ("tt_setdiff_rows", U.tt_setdiff_rows, set(sa) - set(sb))):
            r = ctx.call(op, fn, *_pair())
            if not r.ok:
                ctx.check(False, op, "RAISE:" + type(r.exc).__name__, f"A={sa} B={sb}: {r.exc}")
                continue
            idx = [int(i) for i in np.asarray(r.value).reshape(-1)]
            ok = all(0 <= i < len(sa) for i in idx)
            if ok:
                rows = [sa[i] for i in idx]
                ok = len(rows) == len(set(rows)) and set(rows) == wantset
            ctx.check(ok, op, "WRONG", f"A={sa} B={sb}: indices {idx} select {[sa[i] for i in idx if 0 <= i < len(sa)]} want {sorted(wantset)}")
        r = ctx.call("tt_union_rows", U.tt_union_rows, *_pair())
        if r.ok:
            rows = [tuple(int(v) for v in x) for x in np.asarray(r.value).reshape(-1, ncol).tolist()] if np.asarray(r.value).size else []
            ctx.check(len(rows) == len(set(rows)) and set(rows) == set(sa) | set(sb), "tt_union_rows", "WRONG",
                      f"A={sa} B={sb}: union {rows}")
        else:
            ctx.check(False, "tt_union_rows", "RAISE:" + type(r.exc).__name__, f"A={sa} B={sb}: {r.exc}")
    elif w == "khatrirao":
        mats = [np.array(m, dtype=float) for m in case["mats"]]
        ctx.feat(k=len(mats))
        for rev in (False, True):
            got = ctx.must("khatrirao", ttb.khatrirao, *[m.copy() for m in mats], reverse=rev)
            want = refops.khatrirao(mats, reverse=rev)
            ctx.check(got.shape == want.shape and close(got, want, tol=1e-13), "khatrirao", "WRONG",
                      f"khatrirao(reverse={rev}) differs from column-wise Kronecker", reverse=rev)
