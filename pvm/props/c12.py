"""C12 -- GCP losses, gradients and their tensor-level evaluation are mutually consistent."""
import itertools

import numpy as np

from .. import load
from .. import gen, refops
from ..denote import denote, close

np_, ttb = load()
from pyttb.gcp import handles  # noqa: E402
from pyttb.gcp.fg import evaluate  # noqa: E402
from pyttb.gcp.fg_est import estimate  # noqa: E402
from pyttb.gcp.fg_setup import setup  # noqa: E402
from pyttb.gcp.handles import Objectives  # noqa: E402

ID = "C12"
RULE = ("case = (loss of the ten built-in objectives with its extra parameter, block of 64 (data, model) points on the loss's domain: model values "
        "log-uniform in [1e-3,1e3] or uniform in [-30,30], data binary / counts 0..20 / non-negative reals) for the handle pairs; (loss, model shape "
        "N=2..4, rank 1..3, Kruskal weights unit / non-unit, entry weights none / 0-1 mask / positive reals, sample set all-once / shuffled / with repeats) "
        "for evaluate / estimate / mttkrps; non-trivial = every case; distinct = hash of case")
ANCHORS = ["gcp.handles:gaussian", "gcp.handles:gaussian_grad", "gcp.handles:bernoulli_odds_grad", "gcp.handles:bernoulli_logit_grad",
           "gcp.handles:poisson_grad", "gcp.handles:poisson_log_grad", "gcp.handles:rayleigh_grad", "gcp.handles:gamma_grad",
           "gcp.handles:huber_grad", "gcp.handles:negative_binomial_grad", "gcp.handles:beta_grad", "gcp.fg_setup:setup",
           "gcp.fg:evaluate", "gcp.fg_est:estimate", "gcp.fg_est:estimate_helper", "tensor:tensor.mttkrps", "tensor:mttv_left", "tensor:mttv_mid"]
EXHAUSTIVE = {"quick": {"objectives x extra-parameter values": "complete (10 losses, 4 beta exponents, 3 Huber thresholds, 3 trial counts)"},
              "thorough": {"objectives x extra-parameter values": "complete"}}
STRIDED_ARGS = True   # a quarter of the cases pass every array argument as a strided, non-contiguous view (core.Ctx.begin)
WATCHDOG = {"quick": 600, "thorough": 3000}

LOSSES = [
    ("GAUSSIAN", None, "real", "real"), ("BERNOULLI_ODDS", None, "pos", "binary"), ("BERNOULLI_LOGIT", None, "real", "binary"),
    ("POISSON", None, "pos", "count"), ("POISSON_LOG", None, "real10", "count"), ("RAYLEIGH", None, "pos", "nonneg"), ("GAMMA", None, "pos", "posreal"),
    ("HUBER", 0.5, "real", "real"), ("HUBER", 2.0, "real", "real"), ("HUBER", 10.0, "real", "real"),
    ("NEGATIVE_BINOMIAL", 1.0, "pos", "count"), ("NEGATIVE_BINOMIAL", 2.5, "pos", "count"), ("NEGATIVE_BINOMIAL", 4.0, "pos", "count"),
    ("BETA", 0.5, "pos", "nonneg"), ("BETA", 1.5, "pos", "nonneg"), ("BETA", 2.0, "pos", "nonneg"), ("BETA", 3.0, "pos", "nonneg"),
]


def nontrivial(case):
    return True


def gen_cases(tier, seed):
    rng = gen.rng_for(seed, ID, tier)
    cs = itertools.count(1)
    blocks = 4 if tier == "quick" else 40
    for name, par, mdom, ddom in LOSSES:
        for b in range(blocks):
            yield {"w": "pair", "loss": name, "par": par, "mdom": mdom, "ddom": ddom, "cseed": int(seed) * 373587883 + next(cs)}
    nt = 6 if tier == "quick" else 60
    for name, par, mdom, ddom in LOSSES:
        for i in range(nt):
            N = int(rng.integers(2, 5))
            shp = [int(s) for s in rng.integers(2, 4, size=N)]
            if i % 6 == 4:
                # all-modes MTTKRP: a dominant first or last mode moves the memory-optimal split off-centre; five modes always involve
                # two or more factor matrices in a partial product
                shp = [[7, 2, 2, 3], [2, 2, 3, 7], [2, 2, 2, 2, 3], [3, 2, 2, 2, 2], [2, 6, 2, 2]][int(rng.integers(0, 5))]
            yield {"w": "tensor", "loss": name, "par": par, "mdom": mdom, "ddom": ddom, "shape": shp,
                   "R": int(rng.integers(1, 4)), "lam": ["unit", "unit", "nonunit", "unit", "mixed"][int(rng.integers(0, 5))],
                   "wk": ["none", "mask", "real", "signed"][int(rng.integers(0, 4))], "sample": ["once", "shuffled", "repeats"][i % 3],
                   "sparse_data": bool(rng.integers(0, 2)), "cseed": int(seed) * 373587883 + next(cs)}


def _model_vals(rng, dom, n):
    if dom == "pos":
        return np.exp(rng.uniform(np.log(1e-3), np.log(1e3), size=n))
    if dom == "real10":
        return rng.uniform(-10, 10, size=n)
    return rng.uniform(-30, 30, size=n)


def _data_vals(rng, dom, n):
    if dom == "binary":
        return (rng.random(n) < 0.5).astype(float)
    if dom == "count":
        return rng.integers(0, 21, size=n).astype(float)
    if dom == "nonneg":
        return np.where(rng.random(n) < 0.2, 0.0, rng.uniform(0, 20, size=n))
    if dom == "posreal":
        return rng.uniform(0.01, 20, size=n)
    return rng.uniform(-30, 30, size=n)


def _handles(name, par):
    return setup(getattr(Objectives, name), None, par)


def _deriv(fh, x, m, loss):
    """d/dm of the actual function handle: complex step where analytic, Richardson central differences otherwise."""
    if loss != "HUBER":
        try:
            h = 1e-30
            with np.errstate(all="ignore"):
                v = fh(x, m + 1j * h)
            d = np.imag(v) / h
            if np.all(np.isfinite(d)):
                return d, np.zeros_like(d, dtype=bool)
        except Exception:  # noqa: BLE001
            pass
    # Richardson extrapolation of central differences, relative step
    h = 1e-4 * np.maximum(1.0, np.abs(m))
    d1 = (fh(x, m + h) - fh(x, m - h)) / (2 * h)
    d2 = (fh(x, m + h / 2) - fh(x, m - h / 2)) / h
    d = (4 * d2 - d1) / 3
    skip = np.zeros_like(d, dtype=bool)
    return d, skip


def run_case(case, ctx):
    rng = np.random.default_rng(case["cseed"])
    name, par = case["loss"], case["par"]
    fh, gh, lb = _handles(name, par)
    ctx.feat(loss=name, par=par)
    if case["w"] == "pair":
        n = 64
        m = _model_vals(rng, case["mdom"], n)
        x = _data_vals(rng, case["ddom"], n)
        r = ctx.call("gradient_handle", gh, x.copy(), m.copy())
        r2 = ctx.call("function_handle", fh, x.copy(), m.copy())
        if not (r.ok and r2.ok):
            bad = r if not r.ok else r2
            ctx.check(False, "handle", "RAISE:" + type(bad.exc).__name__, str(bad.exc))
            return
        g = np.asarray(r.value, dtype=float)
        dref, skip = _deriv(fh, x, m, name)
        if name == "HUBER":
            # skip points within a few finite-difference steps of the kink |x - m| = threshold
            skip = np.abs(np.abs(x - m) - par) < 5e-3 * np.maximum(1.0, np.abs(m))
        if name == "HUBER":
            # exactly on the kink |x - m| = threshold the loss is still differentiable (both branches have the slope -2 * threshold *
            # sign(x - m) there): the handle is judged at ties built from exactly representable numbers
            mt = np.array([1.0, -2.0, 0.5, 3.25, -0.75, 8.0])
            par_ = float(par)
            for sgn in (1.0, -1.0):
                xt = mt + sgn * par_
                tie = np.abs(xt - mt) == par_
                if tie.any():
                    gt = np.asarray(gh(xt[tie].copy(), mt[tie].copy()), dtype=float)
                    ctx.check(bool(np.all(np.abs(gt - (-2.0 * par_ * sgn)) <= 1e-12 * max(1.0, par_))), "gradient_handle", "NOT-THE-DERIVATIVE",
                              f"HUBER(par={par}): at |x - m| == threshold (x - m = {sgn * par_}) the gradient handle gives {gt.tolist()}, the slope there is {-2.0 * par_ * sgn}",
                              frac="ties", at_kink=True)
        g0 = np.asarray(gh(np.zeros_like(x), m), dtype=float)
        scale = np.abs(g0) + np.abs(dref - g0) + np.abs(dref)
        tol = (1e-8 if name != "HUBER" else 1e-5) * scale + 1e-300
        bad = (~skip) & (np.abs(g - dref) > tol)
        ctx.tag("points", )
        ctx.check(not bool(bad.any()), "gradient_handle", "NOT-THE-DERIVATIVE",
                  lambda: f"{name}(par={par}): at (x, m) = {list(zip(x[bad][:3].tolist(), m[bad][:3].tolist()))} gradient handle gives {g[bad][:3].tolist()} but d/dm of the "
                          f"function handle is {dref[bad][:3].tolist()} ({int(bad.sum())} of {int((~skip).sum())} points)",
                  frac=("most" if bad.mean() > 0.5 else "some"),
                  # mechanism of known finding C12-K1: the handle returns exactly (r + 1)/(1 + m) - x/(m + eps)
                  pinned_formula=bool(name == "NEGATIVE_BINOMIAL" and np.max(np.abs(g - ((par + 1) / (1 + m) - x / (m + 1e-10))) / scale) <= 1e-9))
        ctx.check(g.shape == x.shape and np.asarray(r2.value).shape == x.shape, "handle", "WRONG-SHAPE", "handles must act element-wise")
        return
    # ---- tensor level ---------------------------------------------------------------------------
    shape = tuple(case["shape"])
    N, R = len(shape), case["R"]
    mixed = case["lam"] == "mixed" and R >= 2
    lamk = "unit" if (case["lam"] == "unit" or (case["lam"] == "mixed" and R < 2)) else "nonunit"
    ctx.feat(lam=lamk, wk=case["wk"], sample=case["sample"], N=N)
    if case["mdom"] == "pos":
        fm = [rng.uniform(0.3, 1.5, size=(s, R)) for s in shape]
        lam = np.ones(R) if lamk == "unit" else rng.uniform(0.5, 2.0, size=R)
    else:
        fm = [rng.uniform(-1.2, 1.2, size=(s, R)) for s in shape]
        lam = np.ones(R) if lamk == "unit" else rng.uniform(0.5, 2.0, size=R) * rng.choice([-1.0, 1.0], size=R)
    if mixed:
        lam[int(rng.integers(0, R))] = 1.0          # some weights exactly one, others not
        ctx.tag("weights-mixed-with-exact-one")
    M = ttb.ktensor([f.copy() for f in fm], lam.copy())
    Md = denote(M)
    Xd = _data_vals(rng, case["ddom"], int(np.prod(shape))).reshape(shape)
    # counts and binary data as a counting process / a comparison hands them over: integer and boolean element types
    dts = {"count": [None, "int64", "int32", "uint8"], "binary": [None, "bool", "uint8", "int64"]}.get(case["ddom"], [None])
    dt = dts[gen.pick(case) % len(dts)]
    ctx.feat(data_type=str(dt))
    X = ttb.tensor(Xd.copy() if dt is None else Xd.astype(dt))
    if case["sparse_data"]:
        X = gen.mk_sptensor(ttb, Xd if dt is None else Xd.astype(dt), gen.stored_order(rng, int(np.count_nonzero(Xd)), "shuffled"), dtype=(None if dt is None else np.dtype(dt)))
    W = None
    if case["wk"] == "mask":
        W = (rng.random(shape) < 0.7).astype(float)
    elif case["wk"] == "real":
        W = rng.uniform(0.2, 3.0, size=shape)
    elif case["wk"] == "signed":
        # weights of either sign (the objective is the weighted sum whatever the sign), some exactly zero
        W = rng.uniform(0.2, 3.0, size=shape) * rng.choice([-1.0, 1.0, 1.0], size=shape) * (rng.random(shape) < 0.9)
    with np.errstate(all="ignore"):
        L = np.asarray(fh(Xd, Md), dtype=float)
    Fref = float(np.sum(L if W is None else L * W))
    dref, _ = _deriv(fh, Xd.reshape(-1), Md.reshape(-1), name)
    Y = dref.reshape(shape) if W is None else dref.reshape(shape) * W
    Gref = [refops.mttkrp(Y, fm, k, weights=lam) for k in range(N)]
    r = ctx.call("evaluate", evaluate, M, X, None if W is None else W.copy(), fh, gh)
    if not r.ok:
        ctx.check(False, "evaluate", "RAISE:" + type(r.exc).__name__, f"{type(r.exc).__name__}: {r.exc} | {r.tb}")
        return
    F, G = r.value
    fs = float(np.sum(np.abs(L if W is None else L * W))) + 1e-300
    ctx.check(abs(F - Fref) <= 1e-10 * fs, "evaluate", "WRONG-OBJECTIVE", f"F = {F!r}, sum of the loss over all entries = {Fref!r}")
    tolg = 1e-7 if name != "HUBER" else 1e-4
    # plumbing: the mode gradients are the MTTKRP of (weights x gradient handle values) with the model's factors and weights
    with np.errstate(all="ignore"):
        Yh = np.asarray(gh(Xd, Md), dtype=float)
    Yh = Yh if W is None else Yh * W
    for k in range(N):
        Gp = refops.mttkrp(Yh, fm, k, weights=lam)
        gs = float(np.max(np.abs(refops.mttkrp(np.abs(Yh), [np.abs(f) for f in fm], k, weights=np.abs(lam))))) + 1e-300
        Gnw = refops.mttkrp(Yh, fm, k)
        ctx.check(np.asarray(G[k]).shape == Gp.shape and bool(np.max(np.abs(G[k] - Gp)) <= 1e-10 * gs), "evaluate", "WRONG-GRADIENT-PLUMBING",
                  lambda k=k, Gp=Gp: f"mode {k}: gradient {np.asarray(G[k]).tolist()} vs MTTKRP of the weighted gradient-handle values {Gp.tolist()}", mode_k=min(k, 3),
                  ignores_weights=bool(np.asarray(G[k]).shape == Gnw.shape and np.max(np.abs(G[k] - Gnw)) <= 1e-9 * gs))
    for k in range(N):
        gs = float(np.max(np.abs(refops.mttkrp(np.abs(Y), [np.abs(f) for f in fm], k, weights=np.abs(lam))))) + 1e-300
        Gp_k = refops.mttkrp(Yh, fm, k, weights=lam)
        Gnw_k = refops.mttkrp(Yh, fm, k)
        ctx.check(np.asarray(G[k]).shape == Gref[k].shape and bool(np.max(np.abs(G[k] - Gref[k])) <= tolg * gs), "evaluate", "WRONG-GRADIENT",
                  lambda k=k: f"mode {k}: gradient {np.asarray(G[k]).tolist()} vs exact partial derivatives {Gref[k].tolist()}", mode_k=min(k, 3),
                  # mechanisms of the known findings: the result is the MTTKRP of the gradient-handle values (C12-K2) / of those values with
                  # the Kruskal weights left out (C12-K3)
                  follows_handle=bool(np.asarray(G[k]).shape == Gp_k.shape and np.max(np.abs(G[k] - Gp_k)) <= 1e-9 * gs),
                  ignores_weights=bool(np.asarray(G[k]).shape == Gnw_k.shape and np.max(np.abs(G[k] - Gnw_k)) <= 1e-9 * gs))
    if case["sparse_data"] and int(np.count_nonzero(Xd)) >= 2 and len(set(Xd[Xd != 0].tolist())) >= 2:
        # the same data object, edited in place between two evaluations: the second evaluation sees the edited values (nothing is
        # remembered about an operand between calls)
        nzv = np.asarray(X.vals).reshape(-1).copy()
        pm = np.roll(np.arange(len(nzv)), 1)
        X.vals[:, 0] = nzv[pm]
        Xd2 = np.zeros(shape)
        Xd2[tuple(np.asarray(X.subs).T)] = np.asarray(X.vals).reshape(-1)
        with np.errstate(all="ignore"):
            L2 = np.asarray(fh(Xd2, Md), dtype=float)
            Yh2 = np.asarray(gh(Xd2, Md), dtype=float)
        Yh2 = Yh2 if W is None else Yh2 * W
        rr = ctx.call("evaluate", evaluate, M, X, None if W is None else W.copy(), fh, gh)
        if rr.ok:
            F2, G2 = rr.value
            F2ref = float(np.sum(L2 if W is None else L2 * W))
            fs2_ = float(np.sum(np.abs(L2 if W is None else L2 * W))) + 1e-300
            ctx.check(abs(F2 - F2ref) <= 1e-10 * fs2_, "evaluate", "WRONG-OBJECTIVE", f"after editing the sparse data in place: F = {F2!r}, sum of the loss = {F2ref!r}", after_edit=True)
            for k in range(N):
                Gp2 = refops.mttkrp(Yh2, fm, k) if lamk != "unit" else refops.mttkrp(Yh2, fm, k, weights=lam)
                gs2 = float(np.max(np.abs(refops.mttkrp(np.abs(Yh2), [np.abs(f) for f in fm], k)))) + 1e-300
                ctx.check(bool(np.max(np.abs(G2[k] - Gp2)) <= 1e-9 * gs2), "evaluate", "STALE-GRADIENT", f"mode {k}: gradient after an in-place edit of the data is not that of the edited data",
                          mode_k=min(k, 3), after_edit=True)
        X.vals[:, 0] = nzv
    # function-only and gradient-only call forms agree with the joint form
    r1 = ctx.call("evaluate", evaluate, M, X, None if W is None else W.copy(), fh, None)
    r2 = ctx.call("evaluate", evaluate, M, X, None if W is None else W.copy(), None, gh)
    if r1.ok and r2.ok:
        ctx.check(r1.value == F and all(np.array_equal(a, b) for a, b in zip(r2.value, G)), "evaluate", "FORMS-DISAGREE", "F-only / G-only forms differ from the joint form")
    # all modes at once == one mode at a time
    Yt = ttb.tensor(Y.copy())
    allg = ctx.call("tensor.mttkrps", Yt.mttkrps, [f.copy() for f in fm])
    if allg.ok:
        for k in range(N):
            one = Yt.mttkrp([f.copy() for f in fm], k)
            ctx.check(close(allg.value[k], one, tol=1e-10), "tensor.mttkrps", "WRONG", f"mode {k}: mttkrps differs from mttkrp", mode_k=min(k, 3))
    # ... also when the factors are handed over as the Kruskal model itself (its weights then scale the columns in both forms)
    allk = ctx.call("tensor.mttkrps", Yt.mttkrps, ttb.ktensor([f.copy() for f in fm], np.array(lam, dtype=float).copy()))
    if allk.ok:
        for k in range(N):
            one = Yt.mttkrp(ttb.ktensor([f.copy() for f in fm], np.array(lam, dtype=float).copy()), k)
            ctx.check(close(allk.value[k], one, tol=1e-10), "tensor.mttkrps", "WRONG", f"mode {k}: mttkrps(ktensor) differs from mttkrp(ktensor)", mode_k=min(k, 3),
                      operand="ktensor")
            ctx.check(close(allk.value[k], refops.mttkrp(Y, fm, k, weights=np.array(lam, dtype=float)), tol=1e-10), "tensor.mttkrps", "WRONG",
                      f"mode {k}: mttkrps(ktensor) differs from the definition", mode_k=min(k, 3), operand="ktensor")
    else:
        ctx.check(False, "tensor.mttkrps", "RAISE:" + type(allk.exc).__name__, f"{type(allk.exc).__name__}: {allk.exc}", operand="ktensor")
    if lamk != "unit":
        # the estimator's own weight handling: with the weight check on, a model with non-unit weights is evaluated as the tensor it
        # denotes (only the objective is comparable: the gradient then refers to the re-normalised parameterisation)
        import warnings

        subs = np.array(list(np.ndindex(*shape)))
        Mc = M.copy()
        with warnings.catch_warnings():
            warnings.simplefilter("ignore")
            re = ctx.call("estimate", estimate, Mc, subs.copy(), Xd[tuple(subs.T)].copy(), np.ones(subs.shape[0]), fh, None, True, None)
        if not re.ok:
            ctx.check(False, "estimate", "RAISE:" + type(re.exc).__name__, f"{type(re.exc).__name__}: {re.exc} | {re.tb}", lambda_check=True)
        else:
            fs2 = float(np.sum(np.abs(L))) + 1e-300
            ctx.check(abs(float(re.value) - float(np.sum(L))) <= 1e-9 * fs2, "estimate", "WRONG-OBJECTIVE",
                      f"lambda_check=True, weights {lam.tolist()}: estimate over all entries {re.value!r} vs exact {float(np.sum(L))!r}", lambda_check=True)
            ctx.check(close(denote(Mc), Md, tol=1e-10), "estimate", "CHANGED-TENSOR", "estimate(lambda_check=True) changed the tensor the model denotes", lambda_check=True)
    # sampled estimator on every entry with unit weights == exact evaluation (unweighted objective)
    if lamk == "unit":
        subs = np.array(list(np.ndindex(*shape)))
        if case["sample"] == "shuffled":
            subs = subs[rng.permutation(subs.shape[0])]
        wts = np.ones(subs.shape[0])
        if case["sample"] == "repeats":
            rep = rng.integers(1, 4, size=subs.shape[0])
            wts = np.repeat(1.0 / rep, rep)
            subs = np.repeat(subs, rep, axis=0)
            p = rng.permutation(subs.shape[0])
            subs, wts = subs[p], wts[p]
        vals = Xd[tuple(subs.T)]
        Funw = float(np.sum(L))
        Gunw = [refops.mttkrp(dref.reshape(shape), fm, k) for k in range(N)]
        re = ctx.call("estimate", estimate, M, subs.copy(), vals.copy(), wts.copy(), fh, gh, False, None)
        if not re.ok:
            ctx.check(False, "estimate", "RAISE:" + type(re.exc).__name__, f"{type(re.exc).__name__}: {re.exc} | {re.tb}")
            return
        Fe, Ge = re.value
        fs2 = float(np.sum(np.abs(L))) + 1e-300
        ctx.check(abs(Fe - Funw) <= 1e-9 * fs2, "estimate", "WRONG-OBJECTIVE", f"estimate over all entries {Fe!r} vs exact {Funw!r}")
        for k in range(N):
            gs = float(np.max(np.abs(refops.mttkrp(np.abs(dref.reshape(shape)), [np.abs(f) for f in fm], k)))) + 1e-300
            Gh_k = refops.mttkrp(np.asarray(gh(Xd, Md), dtype=float), fm, k)
            ctx.check(bool(np.max(np.abs(Ge[k] - Gunw[k])) <= tolg * gs), "estimate", "WRONG-GRADIENT", f"mode {k}: sampled gradient on all entries differs from the exact one",
                      mode_k=min(k, 3), follows_handle=bool(np.max(np.abs(Ge[k] - Gh_k)) <= 1e-9 * gs))
        # partial sample sets (one draw, a few draws, draws confined to the leading slices so that trailing indices of a mode are never
        # visited): the estimate is the weighted sum of the loss over the draws, its gradients are the derivatives of that sum -- factor
        # shaped, with zero rows for indices no draw visits
        allsubs_ = np.array(list(np.ndindex(*shape)))
        for kind_ in ("one", "few", "leading"):
            if kind_ == "one":
                ps = allsubs_[rng.integers(0, len(allsubs_), size=1)]
            elif kind_ == "few":
                ps = allsubs_[rng.integers(0, len(allsubs_), size=int(rng.integers(2, 6)))]
            else:
                lead = allsubs_[np.all(allsubs_ < np.maximum(1, np.array(shape) - 1), axis=1)]
                ps = lead[rng.integers(0, len(lead), size=int(rng.integers(1, 5)))]
            pw = np.round(rng.uniform(0.5, 3.0, size=len(ps)), 3)
            pv = Xd[tuple(ps.T)]
            rp = ctx.call("estimate", estimate, M, ps.copy(), pv.copy(), pw.copy(), fh, gh, False, None)
            if not rp.ok:
                ctx.check(False, "estimate", "RAISE:" + type(rp.exc).__name__, f"{type(rp.exc).__name__}: {rp.exc} | {rp.tb}", partial=kind_)
                continue
            Fp, Gp_ = rp.value
            Lp = L[tuple(ps.T)]
            ctx.check(abs(float(Fp) - float(np.sum(pw * Lp))) <= 1e-9 * (float(np.sum(np.abs(pw * Lp))) + 1e-300), "estimate", "WRONG-OBJECTIVE",
                      f"{kind_} sample: estimate {Fp!r} vs weighted sum of the loss {float(np.sum(pw * Lp))!r}", partial=kind_)
            Dp = np.zeros(shape)
            np.add.at(Dp, tuple(ps.T), pw * dref.reshape(shape)[tuple(ps.T)])
            for k in range(N):
                want_k = refops.mttkrp(Dp, fm, k)
                okshape = np.asarray(Gp_[k]).shape == want_k.shape
                ctx.check(okshape, "estimate", "WRONG-GRADIENT-SHAPE", f"{kind_} sample, mode {k}: gradient shape {np.asarray(Gp_[k]).shape}, factor shape {want_k.shape}",
                          partial=kind_, mode_k=min(k, 3))
                if okshape:
                    gs_ = float(np.max(np.abs(refops.mttkrp(np.abs(Dp), [np.abs(f) for f in fm], k)))) + 1e-300
                    Hp = np.zeros(shape)
                    np.add.at(Hp, tuple(ps.T), pw * np.asarray(gh(Xd, Md), dtype=float)[tuple(ps.T)])
                    ctx.check(bool(np.max(np.abs(np.asarray(Gp_[k]) - want_k)) <= tolg * gs_), "estimate", "WRONG-GRADIENT",
                              f"{kind_} sample, mode {k}: gradient of the sampled objective differs from its derivative", partial=kind_, mode_k=min(k, 3),
                              follows_handle=bool(np.max(np.abs(np.asarray(Gp_[k]) - refops.mttkrp(Hp, fm, k))) <= 1e-9 * gs_))
        # semi-stratified form of the same identity: the stored nonzeros are sampled as "nonzeros flagged for the zero correction"
        # (they contribute f(x,m) - f(0,m)), every entry is sampled as a zero (f(0,m)); repeated draws carry reciprocal weights.  Over all
        # entries the estimator is again the exact objective / gradient of the (sparse) data -- for one, two or many nonzeros.
        allsubs = np.array(list(np.ndindex(*shape)))
        for knz in (1, 2, None):
            pos = np.argwhere(Xd != 0)
            if len(pos) == 0:
                break
            if knz is not None:
                pos = pos[rng.choice(len(pos), size=min(knz, len(pos)), replace=False)]
            Xs = np.zeros(shape)
            Xs[tuple(pos.T)] = Xd[tuple(pos.T)]
            with np.errstate(all="ignore"):
                Ls = np.asarray(fh(Xs, Md), dtype=float)
            if not np.all(np.isfinite(Ls)):
                continue
            drefs, _ = _deriv(fh, Xs.reshape(-1), Md.reshape(-1), name)
            a = int(rng.integers(1, 3))
            b = int(rng.integers(1, 4))
            subs = np.vstack([np.repeat(pos, a, axis=0), np.repeat(allsubs, b, axis=0)])
            vals = np.concatenate([np.repeat(Xs[tuple(pos.T)], a), np.zeros(allsubs.shape[0] * b)])
            wts = np.concatenate([np.full(len(pos) * a, 1.0 / a), np.full(allsubs.shape[0] * b, 1.0 / b)])
            crng = np.arange(len(pos) * a)
            zero_w = bool(rng.integers(0, 2))
            if zero_w:
                # samples that carry the weight 0 (a 0/1 selection laid over the sample) contribute nothing, wherever they sit: here in
                # front of and between the corrected draws
                nz_ = int(rng.integers(1, 4))
                at = np.sort(rng.integers(0, len(crng) + 1, size=nz_))
                extra = allsubs[rng.integers(0, len(allsubs), size=nz_)]
                subs = np.insert(subs, at, extra, axis=0)
                vals = np.insert(vals, at, Xs[tuple(extra.T)])
                wts = np.insert(wts, at, 0.0)
                flag = np.insert(np.concatenate([np.ones(len(crng), dtype=bool), np.zeros(len(wts) - nz_ - len(crng), dtype=bool)]), at, False)
                crng = np.flatnonzero(flag)
            ctx.feat(zero_weight_samples=zero_w)
            scattered = bool(rng.integers(0, 2))
            if scattered:
                # the draws in any order: the corrected ones are then scattered over the sample (gaps between them hold ordinary draws)
                # and are listed in no particular order
                flag_ = np.zeros(len(wts), dtype=bool)
                flag_[crng] = True
                p_ = rng.permutation(len(wts))
                subs, vals, wts, flag_ = subs[p_], vals[p_], wts[p_], flag_[p_]
                crng = np.flatnonzero(flag_)
                crng = crng[rng.permutation(len(crng))]
            ctx.feat(scattered_correction=scattered)
            re = ctx.call("estimate", estimate, M, subs.copy(), vals.copy(), wts.copy(), fh, gh, False, crng.copy())
            if not re.ok:
                ctx.check(False, "estimate", "RAISE:" + type(re.exc).__name__, f"{type(re.exc).__name__}: {re.exc} | {re.tb}", semistrat=True)
                continue
            Fe, Ge = re.value
            fs3 = float(np.sum(np.abs(Ls))) + float(np.sum(np.abs(np.asarray(fh(np.zeros(shape), Md), dtype=float)))) + 1e-300
            ctx.tag(f"semistrat nnz={'1' if len(pos) == 1 else '2' if len(pos) == 2 else 'many'} a={a} b={b}")
            ctx.check(abs(Fe - float(np.sum(Ls))) <= 1e-9 * fs3, "estimate", "WRONG-OBJECTIVE",
                      f"semi-stratified estimate over all entries ({len(pos)} nonzeros x{a}, zeros x{b}) {Fe!r} vs exact {float(np.sum(Ls))!r}", semistrat=True,
                      one_nonzero=bool(len(pos) == 1), unit_weights=bool(a == 1 and b == 1))
            for k in range(N):
                Gs = refops.mttkrp(drefs.reshape(shape), fm, k)
                gs = float(np.max(np.abs(refops.mttkrp(np.abs(drefs.reshape(shape)) + np.abs(np.asarray(gh(np.zeros(shape), Md), dtype=float)), [np.abs(f) for f in fm], k)))) + 1e-300
                Gh_k = refops.mttkrp(np.asarray(gh(Xs, Md), dtype=float), fm, k)
                ctx.check(bool(np.max(np.abs(Ge[k] - Gs)) <= tolg * gs), "estimate", "WRONG-GRADIENT", f"mode {k}: semi-stratified gradient over all entries differs from the exact one",
                          mode_k=min(k, 3), semistrat=True, one_nonzero=bool(len(pos) == 1), unit_weights=bool(a == 1 and b == 1),
                          follows_handle=bool(np.max(np.abs(Ge[k] - Gh_k)) <= 1e-9 * gs))
