"""C15 -- symmetrisation averages over mode permutations and the symmetry test is exact."""
import itertools

import numpy as np

from .. import load
from .. import gen, refops
from ..denote import denote, close, same

np_, ttb = load()
ID = "C15"
RULE = ("case = (shape N=2..4 (5 in thorough) with sizes 1..3 cubical per group, set of one or more disjoint equal-length mode groups incl. proper "
        "subsets of the modes and singleton groups, algorithm version new/old, details on/off, input kind generic / constructed symmetric / "
        "symmetric-up-to-one-entry, case seed); every admissible group set for N<=4 is enumerated; non-trivial = some group has >= 2 modes of size "
        ">= 2; distinct = hash of case")
ANCHORS = ["tensor:tensor.symmetrize", "tensor:tensor.issymmetric", "ktensor:ktensor.symmetrize", "ktensor:ktensor.issymmetric"]
EXHAUSTIVE = {"quick": {"sets of disjoint equal-length groups over N<=4 modes": "complete"},
              "thorough": {"sets of disjoint equal-length groups over N<=5 modes": "complete"}}
NPINT_ARGS = True     # a quarter of the cases pass their integer arguments as NumPy integers (core.Ctx.begin)
STRIDED_ARGS = True   # a quarter of the cases pass every array argument as a strided, non-contiguous view (core.Ctx.begin)
SEQ_ARGS = True       # a quarter of the cases pass short integer arrays (mode lists, permutations) as plain lists / tuples (core.Ctx.begin)
WATCHDOG = {"quick": 600, "thorough": 3000}


def nontrivial(case):
    if case["w"] != "dense":
        return True
    return any(len(g) >= 2 and case["shape"][g[0]] >= 2 for g in case["groups"])


def group_sets(N):
    """All sets of k >= 1 disjoint groups of equal length g >= 1 (ordered within the array as generated)."""
    out = []
    for g in range(1, N + 1):
        singles = [list(c) for c in itertools.combinations(range(N), g)]
        for k in range(1, N // g + 1):
            for combo in itertools.combinations(singles, k):
                flat = [m for grp in combo for m in grp]
                if len(set(flat)) == len(flat):
                    out.append([list(grp) for grp in combo])
    return out


def gen_cases(tier, seed):
    rng = gen.rng_for(seed, ID, tier)
    cs = itertools.count(1)
    maxN = 4 if tier == "quick" else 5
    for N in range(2, maxN + 1):
        for groups in group_sets(N):
            if N == 5 and len(groups[0]) * len(groups) > 4 and rng.random() < 0.5:
                continue
            for rep in range(1 if tier == "quick" else 2):
                # sizes: equal within each group, free elsewhere
                shape = [int(rng.integers(1, 4)) for _ in range(N)]
                for grp in groups:
                    s = int(rng.integers(2, 4)) if rng.random() < 0.8 else 1
                    if N >= 4:
                        s = min(s, 2 if len(grp) > 2 else 3)
                    for m in grp:
                        shape[m] = s
                if int(np.prod(shape)) > 300:
                    continue
                kinds = ["generic", "symmetric", "almost", "first-group-symmetric", "last-group-symmetric", "nearly"]
                if len(groups[0]) >= 3:
                    # invariant under a proper subgroup of the first group's permutations only (rotations; rotations and reversal;
                    # swaps of the 1st/2nd and 3rd/4th listed modes): symmetric-looking, but not symmetric
                    kinds += ["sub-cyclic", "sub-dihedral", "sub-pairs"]
                for kind in kinds:
                    yield {"w": "dense", "shape": shape, "groups": groups, "kind": kind, "shuffle_groups": bool(rng.integers(0, 2)),
                           "cseed": int(seed) * 141650939 % (2 ** 31) + next(cs)}
                # value classes: stored element types whose own arithmetic saturates / wraps (masks, narrow integers), and infinite entries
                for vals in ("bool", "int8", "uint8", "int32", "inf", "-inf", "nan", "inf-mixed", "int64-beyond-2^53"):
                    for kind in ("generic", "symmetric") + (("almost",) if vals == "int64-beyond-2^53" else ()):
                        yield {"w": "dense", "shape": shape, "groups": groups, "kind": kind, "shuffle_groups": bool(rng.integers(0, 2)), "vals": vals,
                               "cseed": int(seed) * 141650939 % (2 ** 31) + next(cs)}
    # three or more groups of two or more modes each (order >= 6): the permutation table of the older algorithm is a product over the
    # groups with a middle factor
    many = [([2, 2, 2, 2, 2, 2], [[0, 1], [2, 3], [4, 5]]), ([2, 2, 3, 3, 2, 2], [[0, 1], [2, 3], [4, 5]]), ([2, 2, 2, 2, 2, 2], [[0, 5], [1, 3], [2, 4]]),
            ([2, 2, 2, 1, 2, 2, 2], [[0, 1], [2, 4], [5, 6]])]
    if tier == "thorough":
        many += [([2, 2, 2, 2, 2, 2, 2, 2], [[0, 1], [2, 3], [4, 5], [6, 7]]), ([2, 2, 2, 2, 2, 2, 2, 2, 2], [[0, 1, 2], [3, 4, 5], [6, 7, 8]]),
                 ([3, 3, 2, 2, 2, 2], [[0, 1], [2, 3], [4, 5]])]
    for shp, groups in many:
        for kind in ("generic", "symmetric", "almost", "first-group-symmetric", "last-group-symmetric"):
            yield {"w": "dense", "shape": shp, "groups": groups, "kind": kind, "shuffle_groups": bool(rng.integers(0, 2)),
                   "cseed": int(seed) * 141650939 % (2 ** 31) + next(cs)}
    # groups of four or five modes whose data is invariant under the rotations and the reversal of the modes *as listed* (a proper
    # subgroup from four modes on), under the rotations only, and under two disjoint swaps: always present, listed order kept
    for shp, groups in (([2, 2, 2, 2], [[0, 1, 2, 3]]), ([3, 3, 3, 3], [[0, 1, 2, 3]]), ([2, 3, 2, 2, 2], [[0, 2, 3, 4]]), ([2, 2, 2, 2], [[3, 1, 0, 2]]),
                        ([2, 2, 2, 2, 2], [[0, 1, 2, 3, 4]])):
        for kind in ("sub-cyclic", "sub-dihedral", "sub-pairs"):
            yield {"w": "dense", "shape": shp, "groups": groups, "kind": kind, "shuffle_groups": False, "cseed": int(seed) * 141650939 % (2 ** 31) + next(cs)}
    # sequences of calls on tensors of one shape with a different group each time
    for shp, seq in (([3, 3, 3], [[[0, 1]], [[1, 2]], [[0, 2]], [[0, 1, 2]]]), ([2, 2, 2, 2], [[[0, 1, 2]], [[1, 3]], [[0, 1], [2, 3]], [[0, 3]]]),
                     ([3, 2, 3], [[[0, 2]], [[2, 0]]]), ([2, 2, 2], [[[0, 1, 2]], [[1, 2]], [[0, 1]]])):
        yield {"w": "dense_sequence", "shape": shp, "group_sequence": seq, "groups": seq[0], "kind": "sequence", "shuffle_groups": False,
               "cseed": int(seed) * 141650939 % (2 ** 31) + next(cs)}
    # tensors with more than 2^16 elements: symmetric, and symmetric except for one entry whose partner lies at the far end
    for shp, groups in (([300, 300], [[0, 1]]), ([41, 41, 41], [[0, 1, 2]]), ([45, 40, 45], [[0, 2]]), ([17, 17, 17, 17], [[0, 1], [2, 3]])):
        for kind in ("symmetric", "tail-off", "head-off"):
            yield {"w": "dense_large", "shape": shp, "groups": groups, "kind": kind, "cseed": int(seed) * 141650939 % (2 ** 31) + next(cs)}
    for N in range(2, maxN):
        for s in (1, 2, 3):
            for R in (1, 2, 3):
                for wk in ("positive", "mixed"):
                    yield {"w": "kruskal", "shape": [s] * N, "R": R, "wk": wk, "cseed": int(seed) * 141650939 % (2 ** 31) + next(cs)}


def _dense_large(case, ctx, rng, shape, N):
    groups = [list(g) for g in case["groups"]]
    # integer-valued multiples of 24: the permutation average is exact, so the symmetric variant is symmetric bit for bit
    A = refops.symmetrize(rng.integers(-40, 41, size=shape).astype(float) * 24.0, groups)
    if case["kind"] != "symmetric":
        # one entry differs from its permuted partners; it sits at the far (or near) corner of the index range
        pos = [s_ - 1 - int(rng.integers(0, 2)) for s_ in shape] if case["kind"] == "tail-off" else [int(rng.integers(0, 2)) for _ in shape]
        g0 = groups[0]
        pos[g0[0]] = pos[g0[1]] - 1 if case["kind"] == "tail-off" else pos[g0[1]] + 1        # off the diagonal of the group
        A[tuple(pos)] += 0.5
    is_sym = refops.is_symmetric(A, groups)
    if is_sym != (case["kind"] == "symmetric"):
        raise AssertionError("generator: large symmetric / off-by-one-entry construction failed")
    ctx.feat(N=N, kind=case["kind"], large=True, ngroups=len(groups))
    garg = np.array(groups[0]) if len(groups) == 1 else np.array(groups)
    T = ttb.tensor(A.copy())
    for ver, det in ((None, False), (1, False), (None, True)):
        kw = {} if ver is None else {"version": ver}
        if det:
            kw["return_details"] = True
        r = ctx.call("tensor.issymmetric", T.issymmetric, garg.copy(), **kw)
        if not r.ok:
            ctx.check(False, "tensor.issymmetric", "RAISE:" + type(r.exc).__name__, f"{type(r.exc).__name__}: {r.exc} | {r.tb}", version=str(ver), details=det)
            continue
        ans = r.value[0] if det else r.value
        ctx.check(bool(ans) == is_sym, "tensor.issymmetric", "WRONG", f"issymmetric(groups={groups}, version={ver}, details={det}) on a {shape} tensor says {ans}, truth {is_sym}",
                  version=str(ver), details=det, truth=is_sym)
    r = ctx.call("tensor.symmetrize", T.symmetrize, garg.copy())
    if r.ok:
        want = refops.symmetrize(A, groups)
        ctx.check(close(denote(r.value), want, tol=1e-12), "tensor.symmetrize", "WRONG", f"symmetrize of a {shape} tensor is not the permutation average", version="None")
    else:
        ctx.check(False, "tensor.symmetrize", "RAISE:" + type(r.exc).__name__, f"{type(r.exc).__name__}: {r.exc} | {r.tb}", version="None")


def run_case(case, ctx):
    rng = np.random.default_rng(case["cseed"])
    shape = tuple(case["shape"])
    N = len(shape)
    if case["w"] == "kruskal":
        return _kruskal(case, ctx, rng, shape, N)
    if case["w"] == "dense_large":
        return _dense_large(case, ctx, rng, shape, N)
    if case["w"] == "dense_sequence":
        # one process, tensors of one shape, a different group (or group set) in every call: no call depends on the ones before it
        for step_, groups in enumerate(case["group_sequence"]):
            A = gen.normals(rng, shape)
            garg = np.array(groups[0]) if len(groups) == 1 else np.array(groups)
            want = refops.symmetrize(A, groups)
            for ver in (None, 1):
                T = ttb.tensor(A.copy())
                r = ctx.call("tensor.symmetrize", T.symmetrize, garg.copy(), **({} if ver is None else {"version": ver}))
                if not r.ok:
                    ctx.check(False, "tensor.symmetrize", "RAISE:" + type(r.exc).__name__, f"{type(r.exc).__name__}: {r.exc} | {r.tb}", version=str(ver), step=min(step_, 3))
                    continue
                S = denote(r.value)
                ctx.check(S.shape == want.shape and close(S, want, tol=1e-12), "tensor.symmetrize", "WRONG",
                          lambda: f"call {step_ + 1} of a sequence on shape {shape}: symmetrize(groups={groups}, version={ver}) differs from the permutation average "
                          f"(earlier calls used {case['group_sequence'][:step_]})", version=str(ver), step=min(step_, 3))
                ri = ctx.call("tensor.issymmetric", r.value.issymmetric, garg.copy())
                if ri.ok:
                    ctx.check(bool(ri.value) is True, "tensor.issymmetric", "RESULT-NOT-SYMMETRIC", "the symmetrised tensor fails the symmetry test", version=str(ver), step=min(step_, 3))
        return
    groups = [list(g) for g in case["groups"]]
    if case["shuffle_groups"]:
        groups = [[int(x) for x in rng.permutation(g)] for g in groups]
    A = gen.normals(rng, shape)
    if case["kind"] in ("symmetric", "almost"):
        A = refops.symmetrize(A, groups)
        if case["kind"] == "almost":
            pos = tuple(int(rng.integers(0, s)) for s in shape)
            A = A.copy()
            A[pos] += 0.5
    if case["kind"] == "first-group-symmetric":
        A = refops.symmetrize(A, groups[:1])
    elif case["kind"] == "last-group-symmetric":
        A = refops.symmetrize(A, groups[-1:])
    elif case["kind"].startswith("sub-"):
        g = groups[0]
        L = len(g)
        gens = {"sub-cyclic": [tuple(list(range(1, L)) + [0])], "sub-dihedral": [tuple(list(range(1, L)) + [0]), tuple(range(L - 1, -1, -1))],
                "sub-pairs": [tuple([1, 0] + list(range(2, L)))] + ([tuple([0, 1, 3, 2] + list(range(4, L)))] if L >= 4 else [])}[case["kind"]]
        elems = {tuple(range(L))}
        frontier = list(elems)
        while frontier:
            p_ = frontier.pop()
            for q_ in gens:
                r_ = tuple(p_[i_] for i_ in q_)
                if r_ not in elems:
                    elems.add(r_)
                    frontier.append(r_)
        # small-integer data and plain sums (no division): the invariance under the subgroup is exact, bit for bit
        A = rng.integers(-6, 7, size=shape).astype(float)
        acc = np.zeros(shape)
        for p_ in elems:
            axes = list(range(N))
            for i_, m in enumerate(g):
                axes[m] = g[p_[i_]]
            acc = acc + np.transpose(A, axes)
        A = acc
        # the other groups are made fully symmetric (sums over all their permutations), so that only the first group decides
        for g2 in groups[1:]:
            acc = np.zeros(shape)
            for pm in itertools.permutations(range(len(g2))):
                axes = list(range(N))
                for i_, m in enumerate(g2):
                    axes[m] = g2[pm[i_]]
                acc = acc + np.transpose(A, axes)
            A = acc
    elif case["kind"] == "nearly":
        # symmetric up to a relative perturbation of one entry far below any tolerance-based comparison
        A = refops.symmetrize(A, groups)
        pos = tuple(int(rng.integers(0, s)) for s in shape)
        A = A.copy()
        A[pos] *= (1 + 1e-9)
    vals = case.get("vals", "float")
    Astored = A
    if vals == "bool":
        Astored = A > 0.3
    elif vals == "int8":
        Astored = np.clip(np.round(A * 45.0), -127, 127).astype(np.int8)
    elif vals == "uint8":
        Astored = np.clip(np.round(np.abs(A) * 90.0), 0, 255).astype(np.uint8)
    elif vals == "int32":
        Astored = np.round(A * 6.0e8).clip(-2 ** 31 + 1, 2 ** 31 - 1).astype(np.int32)
    elif vals == "int64-beyond-2^53":
        # 64-bit integers beyond the range in which doubles are exact: entries that differ by 1 are the same double
        base = np.round(A * 4.0).astype(np.int64)
        Astored = (base + np.int64(2 ** 53 + 2)) if case["kind"] != "almost" else None
        if Astored is None:
            sym_ = np.zeros(shape, dtype=np.int64) + np.int64(2 ** 53)       # (2**53 + 1 is the same double as 2**53)
            g_ = next((g2 for g2 in groups if len(g2) >= 2 and shape[g2[0]] >= 2), None)
            Astored = sym_.copy()
            if g_ is not None:
                pos = [0] * N
                pos[g_[1]] = 1
                Astored[tuple(pos)] += 1                 # one entry off by one from its permuted partner
    elif vals in ("inf", "-inf"):
        # an infinite value on a whole orbit of positions (every within-group permutation of one index), so symmetry is not disturbed
        Astored = A.copy()
        pos = [int(rng.integers(0, s_)) for s_ in shape]
        for perms in itertools.product(*[itertools.permutations(range(len(g))) for g in groups]):
            q = list(pos)
            for g, pm in zip(groups, perms):
                for i_, m in enumerate(g):
                    q[m] = pos[g[pm[i_]]]
            Astored[tuple(q)] = np.inf if vals == "inf" else -np.inf
    elif vals in ("nan", "inf-mixed"):
        # a class of positions whose average is not a number: one NaN member, or members +inf and -inf.  The average over the
        # within-group permutations is NaN on that whole class and nowhere else; the symmetry test is not asked (NaN != NaN)
        Astored = A.copy()
        gsz = [g_ for g_ in groups if len(g_) >= 2 and shape[g_[0]] >= 2]
        if gsz:
            g_ = gsz[0]
            pos = [int(rng.integers(0, s_)) for s_ in shape]
            pos[g_[0]], pos[g_[1]] = 0, 1
            Astored[tuple(pos)] = np.nan if vals == "nan" else np.inf
            if vals == "inf-mixed":
                pos[g_[0]], pos[g_[1]] = 1, 0
                Astored[tuple(pos)] = -np.inf
    A = np.asarray(Astored, dtype=float)
    ctx.feat(vals=vals)
    nonnum = vals in ("nan", "inf-mixed")
    is_sym = refops.is_symmetric(A, groups) and not nonnum
    exact_ints = vals == "int64-beyond-2^53"
    if exact_ints:
        is_sym = refops.is_symmetric(np.asarray(Astored), groups)       # decided on the integers themselves
    full = (sorted(m for g in groups for m in g) == list(range(N))) and len(groups) == 1
    ctx.feat(N=N, ngroups=len(groups), glen=len(groups[0]), full_group=full, kind=case["kind"], proper_subgroup=not full)
    garg = np.array(groups[0]) if len(groups) == 1 else np.array(groups)
    T = ttb.tensor(Astored.copy())
    with np.errstate(invalid="ignore"):
        want = refops.symmetrize(A, groups)
    results = {}
    for ver in (None, 1) if not exact_ints else ():
        op = "tensor.symmetrize"
        r = ctx.call(op, T.symmetrize, garg.copy(), **({} if ver is None else {"version": ver}))
        if not r.ok:
            ctx.check(False, op, "RAISE:" + type(r.exc).__name__, f"{type(r.exc).__name__}: {r.exc} | {r.tb}", version=str(ver))
            continue
        S = denote(r.value)
        results[ver] = S
        ctx.check(S.shape == want.shape and close(S, want, tol=1e-12), op, "WRONG",
                  lambda: f"symmetrize(groups={groups}, version={ver}) of {A.tolist()} gives {S.tolist()} want the average over within-group permutations {want.tolist()}",
                  version=str(ver))
        if is_sym:
            ctx.check(close(S, A, tol=1e-14), op, "CHANGED-SYMMETRIC", "an already symmetric tensor changed its value", version=str(ver))
        # result passes the symmetry test, symmetrising again changes nothing
        r2 = ctx.call("tensor.issymmetric", r.value.issymmetric, garg.copy())
        if r2.ok and not nonnum:
            ctx.check(bool(r2.value) is True, "tensor.issymmetric", "RESULT-NOT-SYMMETRIC", "the symmetrised tensor fails the symmetry test", version=str(ver))
        r3 = ctx.call(op, r.value.symmetrize, garg.copy(), **({} if ver is None else {"version": ver}))
        if r3.ok:
            ctx.check(close(denote(r3.value), S, tol=1e-13), op, "NOT-IDEMPOTENT", "symmetrising again changed the tensor", version=str(ver))
    if None in results and 1 in results:
        ctx.check(close(results[None], results[1], tol=1e-12), "tensor.symmetrize", "VERSIONS-DISAGREE", "new and old symmetrize implementations disagree")
    # the symmetry test itself: all call forms against brute force
    answers = {}
    if nonnum:
        ctx.tag("not-a-number-class")
        return
    for ver, det in ((None, False), (1, False), (None, True), (1, True)):
        op = "tensor.issymmetric"
        kw = {}
        if ver is not None:
            kw["version"] = ver
        if det:
            kw["return_details"] = True
        r = ctx.call(op, T.issymmetric, garg.copy(), **kw)
        if not r.ok:
            ctx.check(False, op, "RAISE:" + type(r.exc).__name__, f"{type(r.exc).__name__}: {r.exc} | {r.tb}", version=str(ver), details=det)
            continue
        ans = r.value[0] if det else r.value
        answers[(ver, det)] = bool(ans)
        ctx.check(bool(ans) == is_sym, op, "WRONG", lambda: f"issymmetric(groups={groups}, version={ver}, details={det}) says {ans}, brute force says {is_sym} for {A.tolist()}",
                  version=str(ver), details=det, truth=is_sym)
    ctx.tag("symmetric-input" if is_sym else "asymmetric-input")


def _kruskal(case, ctx, rng, shape, N):
    R = case["R"]
    w, fm = gen.rand_ktensor_parts(rng, shape, R, "positive" if case["wk"] == "positive" else "mixed")
    K = ttb.ktensor([np.array(f) for f in fm], np.array(w))
    ctx.feat(N=N, R=R, wk=case["wk"])
    r = ctx.call("ktensor.symmetrize", K.symmetrize)
    if not r.ok:
        ctx.check(False, "ktensor.symmetrize", "RAISE:" + type(r.exc).__name__, f"{type(r.exc).__name__}: {r.exc} | {r.tb}")
        return
    S = r.value
    D = denote(S)
    ok = all(np.array_equal(np.transpose(D, p), D) or close(np.transpose(D, p), D, tol=1e-12) for p in itertools.permutations(range(N)))
    ctx.check(ok, "ktensor.symmetrize", "RESULT-NOT-SYMMETRIC", "symmetrised Kruskal tensor is not invariant under every mode permutation")
    r2 = ctx.call("ktensor.issymmetric", S.issymmetric)
    if r2.ok:
        ctx.check(bool(r2.value) is True, "ktensor.issymmetric", "RESULT-NOT-SYMMETRIC", "symmetrised Kruskal tensor fails its symmetry test")
    r3 = ctx.call("ktensor.symmetrize", S.symmetrize)
    if r3.ok:
        ctx.check(close(denote(r3.value), D, tol=1e-12), "ktensor.symmetrize", "NOT-IDEMPOTENT", "symmetrising a symmetric Kruskal tensor changed it")
    # an already symmetric Kruskal tensor keeps its value: one factor in every mode, weights of either sign, and the same tensor
    # presented with columns negated in an even number of modes / with the sign moved between a weight and one mode
    F = rng.standard_normal((shape[0], R))
    ws = (rng.random(R) + 0.5) * (rng.choice([-1.0, 1.0], size=R) if case["wk"] != "positive" else 1.0)
    if N % 2 == 0 and case["wk"] != "positive":
        ws = np.abs(ws) if rng.random() < 0.5 else ws       # even order: a negative term has no symmetric real form x^N with weight>0
    for pres in ("plain", "even-flips", "sign-in-factor"):
        fms = [F.copy() for _ in range(N)]
        wp = ws.copy()
        if pres == "even-flips":
            for j in range(R):
                modes = rng.choice(N, size=2 * int(rng.integers(1, N // 2 + 1)), replace=False) if N >= 2 else []
                for m in modes:
                    fms[m][:, j] *= -1.0
        elif pres == "sign-in-factor":
            m = int(rng.integers(0, N))
            fms[m] = fms[m] * np.sign(wp)
            wp = np.abs(wp)
        Ks = ttb.ktensor(fms, wp)
        want = denote(Ks)
        if not refops.is_symmetric(np.round(want, 12), [list(range(N))]) and not all(close(np.transpose(want, p_), want, tol=1e-12) for p_ in itertools.permutations(range(N))):
            continue
        r5 = ctx.call("ktensor.symmetrize", Ks.symmetrize)
        if not r5.ok:
            ctx.check(False, "ktensor.symmetrize", "RAISE:" + type(r5.exc).__name__, f"{type(r5.exc).__name__}: {r5.exc} | {r5.tb}", pres=pres)
            continue
        got = denote(r5.value)
        ctx.tag("kruskal-symmetric-input:" + pres)
        ctx.check(close(got, want, tol=1e-10), "ktensor.symmetrize", "SYMMETRIC-INPUT-CHANGED",
                  lambda: f"symmetric Kruskal input ({pres}, weights {wp.tolist()}) changed value: max diff {np.max(np.abs(got - want)):.3e}",
                  pres=pres, odd_order=bool(N % 2), neg_weight=bool((ws < 0).any()))
    # symmetry test on factor matrices: true iff all factor matrices are equal
    r4 = ctx.call("ktensor.issymmetric", K.issymmetric, True)
    if r4.ok:
        truth = all(fm[0].shape == f.shape and np.array_equal(fm[0], f) for f in fm)
        ctx.check(bool(r4.value[0]) == truth, "ktensor.issymmetric", "WRONG", f"issymmetric says {r4.value[0]}, factors equal: {truth}")
