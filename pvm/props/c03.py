"""C03 -- sparse element-wise arithmetic, logic and comparison match dense semantics."""
import itertools
import operator

import numpy as np

from .. import load
from .. import gen
from ..denote import denote, same, kind

np_, ttb = load()
ID = "C03"
RULE = ("case = (shape, per-cell joint zero pattern of A and B, values from {-2,-1,1,2,0.5} with forced ties, stored orders); each case "
        "applies 13 operators x rhs kind {sparse, dense} plus the scalar forms with scalars {-2,-1,0,1,2,0.5}; all 4^cells joint patterns "
        "for every shape with <= 4 cells (quick) / <= 6 cells (thorough), sampled up to 60 cells; non-trivial = >= 2 cells; distinct = hash of case")
ANCHORS = [
    "sptensor:sptensor.__add__", "sptensor:sptensor.__sub__", "sptensor:sptensor.__mul__", "sptensor:sptensor.__truediv__",
    "sptensor:sptensor.__eq__", "sptensor:sptensor.__ne__", "sptensor:sptensor.__lt__", "sptensor:sptensor.__le__",
    "sptensor:sptensor.__gt__", "sptensor:sptensor.__ge__", "sptensor:sptensor.logical_and", "sptensor:sptensor.logical_or",
    "sptensor:sptensor.logical_xor", "sptensor:sptensor.logical_not", "sptensor:sptensor.__rtruediv__", "sptensor:sptensor.__rmul__",
    "pyttb_utils:tt_intersect_rows", "pyttb_utils:tt_setdiff_rows", "pyttb_utils:tt_ismember_rows",
    "sptensor:sptensor.elemfun", "sptensor:sptensor.ones",
]
EXHAUSTIVE = {
    "quick": {"joint zero patterns (4^cells) for all shapes with <= 4 cells, N<=3": "complete"},
    "thorough": {"joint zero patterns (4^cells) for all shapes with <= 6 cells, N<=3": "complete",
                 "8-cell shapes (2,2,2),(2,4),(8,): 4^8 patterns": "sampled 1/16 per run (chunk chosen by seed)"},
}
THOROUGH_PASSES = 1     # the thorough generator of this property is already minutes long
WATCHDOG = {"quick": 900, "thorough": 3400}
SHARDS = {"quick": 16, "thorough": 16}
VALS = [-2.0, -1.0, 1.0, 2.0, 0.5]
SCALARS = [-2.0, -1.0, 0.0, 1.0, 2.0, 0.5]

ARITH = [("__add__", np.add), ("__sub__", np.subtract), ("__mul__", np.multiply), ("__truediv__", np.true_divide)]
LOGIC = [("logical_and", np.logical_and), ("logical_or", np.logical_or), ("logical_xor", np.logical_xor)]
COMP = [("__eq__", np.equal), ("__ne__", np.not_equal), ("__lt__", np.less), ("__le__", np.less_equal),
        ("__gt__", np.greater), ("__ge__", np.greater_equal)]


def nontrivial(case):
    return case.get("w") == "huge" or int(np.prod(case["shape"])) >= 2


def _shapes_upto(cells, maxN=3):
    out = []
    for N in range(1, maxN + 1):
        for shp in itertools.product(range(1, cells + 1), repeat=N):
            if int(np.prod(shp)) <= cells:
                out.append(shp)
    return out


def gen_cases(tier, seed):
    rng = gen.rng_for(seed, ID, tier)
    cs = itertools.count(1)
    maxcells = 4 if tier == "quick" else 6
    shapes = _shapes_upto(maxcells)
    if tier == "quick":
        # all shapes up to 3 cells, the 4-cell shapes of order <= 2 and two 3-way ones
        shapes = [s for s in shapes if int(np.prod(s)) <= 3 or len(s) <= 2 or s in ((2, 2, 1), (1, 2, 2))]
    for shp in shapes:
        n = int(np.prod(shp))
        if tier == "thorough" and n >= 5 and len(shp) == 3 and 1 in shp and shp not in ((1, 5, 1), (2, 3, 1), (1, 2, 3), (3, 1, 2)):
            continue
        for pat in itertools.product(range(4), repeat=n):
            yield {"w": "joint", "shape": list(shp), "pat": list(pat), "cseed": int(seed) * 7919 + next(cs)}
    if tier == "thorough":
        total = 4 ** 8
        chunk = int(seed) % 16
        for shp in ((2, 2, 2), (2, 4), (8,)):
            for code in range(chunk, total, 16 * 8):
                pat = [(code >> (2 * i)) & 3 for i in range(8)]
                yield {"w": "joint", "shape": list(shp), "pat": pat, "cseed": int(seed) * 7919 + next(cs)}
    # index spaces that cannot be expanded (2^64 cells and more): a handful of stored entries, chosen so that any linear index computed in
    # machine integers collides; judged coordinate by coordinate
    for shp in ([2, 2 ** 32, 2 ** 32], [3, 5 * 10 ** 9, 4 * 10 ** 9], [2 ** 22, 2 ** 22, 2 ** 22], [2 ** 33, 2 ** 33], [2 ** 16, 2 ** 16, 2 ** 16, 2 ** 17]):
        for _ in range(1 if tier == "quick" else 4):
            yield {"w": "huge", "shape": shp, "cseed": int(seed) * 7919 + next(cs)}
    # large operands (thousands of stored entries on both sides): any blocking / chunking inside the row-set helpers must be invisible
    for i in range(1 if tier == "quick" else 6):
        yield {"w": "joint", "shape": [[30, 30, 10], [24, 20, 18], [95, 95]][i % 3], "density": [0.29, 0.33, 0.31][i % 3], "large": True, "cseed": int(seed) * 7919 + next(cs)}
    for _ in range(150 if tier == "quick" else 1500):
        N = int(rng.integers(1, 5))
        shp = gen.rand_shape(rng, N, 1, 4)
        if int(np.prod(shp)) > 60:
            continue
        n = int(np.prod(shp))
        density = [0.1, 0.5, 0.9][int(rng.integers(0, 3))]
        pat = [int(2 * (rng.random() < density) + (rng.random() < density)) for _ in range(n)]
        yield {"w": "joint", "shape": list(shp), "pat": pat, "cseed": int(seed) * 7919 + next(cs)}


def _nnzc(n):
    return "0" if n == 0 else "1" if n == 1 else "2+"


def _as_bool(x):
    return np.asarray(x) != 0


def _huge_case(case, ctx):
    import math

    rng = np.random.default_rng(case["cseed"])
    shape = tuple(int(x) for x in case["shape"])
    N = len(shape)
    cells = math.prod(shape)

    def rnd():
        return tuple(int(rng.integers(0, s_)) for s_ in shape)
    base = rnd()
    # coordinates whose row-major / column-major linear indices differ by a multiple of 2^64 where the shape allows it, plus neighbours
    pts = {base}
    for m in range(N):
        stride_c = math.prod(shape[m + 1:])
        stride_f = math.prod(shape[:m])
        for stride in (stride_c, stride_f):
            if stride and (2 ** 64) % stride == 0:
                step = (2 ** 64) // stride
                q = list(base)
                if step < shape[m]:
                    q[m] = (base[m] + step) % shape[m]
                    pts.add(tuple(q))
        q = list(base)
        q[m] = (base[m] + 1) % shape[m]
        pts.add(tuple(q))
    pts = list(pts) + [rnd() for _ in range(2)]
    pts = list(dict.fromkeys(pts))
    a_pts = [p for i, p in enumerate(pts) if i % 3 != 2]
    b_pts = [p for i, p in enumerate(pts) if i % 3 != 1]
    dA = {p: float(rng.choice([1.0, 2.0, -1.0, 3.0])) for p in a_pts}
    dB = {p: float(rng.choice([1.0, 2.0, -1.0, 3.0])) for p in b_pts}
    for p in list(dB)[:1]:
        if p in dA:
            dB[p] = -dA[p]          # an exact cancellation under +
    mk = lambda d: ttb.sptensor(np.array(list(d.keys()), dtype=np.int64), np.array(list(d.values())).reshape(-1, 1), shape)  # noqa: E731
    SA, SB = mk(dA), mk(dB)
    ctx.feat(N=N, huge=True, beyond_2_64=bool(cells >= 2 ** 64))
    keys = set(dA) | set(dB)
    table = [("__add__", lambda a, b: a + b), ("__sub__", lambda a, b: a - b), ("logical_and", lambda a, b: float(a != 0 and b != 0)),
             ("logical_or", lambda a, b: float(a != 0 or b != 0)), ("logical_xor", lambda a, b: float((a != 0) != (b != 0))), ("__mul__", lambda a, b: a * b)]
    for name, f in table:
        want = {k: f(dA.get(k, 0.0), dB.get(k, 0.0)) for k in keys}
        want = {k: v for k, v in want.items() if v != 0}
        r = ctx.call("sptensor." + name, getattr(SA, name), SB)
        if not r.ok:
            ctx.check(False, "sptensor." + name, "RAISE:" + type(r.exc).__name__, f"{type(r.exc).__name__}: {r.exc} | {r.tb}", rhs="sptensor")
            continue
        R = r.value
        ok = kind(R) == "sptensor" and tuple(int(x) for x in R.shape) == shape
        got = {}
        if ok and R.nnz:
            for sub, v in zip(np.asarray(R.subs).tolist(), np.asarray(R.vals).reshape(-1).tolist()):
                got[tuple(int(x) for x in sub)] = got.get(tuple(int(x) for x in sub), 0.0) + float(v)
            ok = len(got) == R.nnz
        ctx.check(ok and got == want, "sptensor." + name, "WRONG", lambda: f"shape {shape}: {name} gives {got} want {want} (A={dA}, B={dB})", rhs="sptensor")


def run_case(case, ctx):
    if case["w"] == "huge":
        return _huge_case(case, ctx)
    rng = np.random.default_rng(case["cseed"])
    shape = tuple(case["shape"])
    n = int(np.prod(shape))
    if "pat" not in case:
        pat = (2 * (rng.random(n) < case["density"]) + (rng.random(n) < case["density"])).astype(int)
    else:
        pat = np.array(case["pat"])
    a_nz = (pat & 2) != 0
    b_nz = (pat & 1) != 0
    av = rng.choice(VALS, size=n)
    bv = rng.choice(VALS, size=n)
    if gen.pick(case) % 3 == 0:
        bv = np.where(rng.random(n) < 0.6, av, bv)  # forced exact ties
    A = np.where(a_nz, av, 0.0).reshape(shape)
    B = np.where(b_nz, bv, 0.0).reshape(shape)
    na, nb = int(a_nz.sum()), int(b_nz.sum())
    both = int((a_nz & b_nz).sum())
    orders = ["sorted"]
    if max(na, nb) >= 2:
        orders.append("shuffled")
    if case.get("large"):
        orders = ["shuffled"]
    for ordk in orders:
        # object history: every other case reaches its sparse operands by growth (after operators have been evaluated on the smaller object)
        hist = [None, "grown-subs", None, "grown-region"][gen.pick(case) % 4] if not case.get("large") else None
        SA = gen.mk_sptensor(ttb, A, gen.stored_order(rng, na, ordk), hist=hist)
        SB = gen.mk_sptensor(ttb, B, gen.stored_order(rng, nb, ordk if ordk == "sorted" else "shuffled"), hist=hist)
        ctx.feat(hist=str(hist))
        TB = ttb.tensor(B.copy())
        ctx.feat(N=len(shape), nnzA=_nnzc(na), nnzB=_nnzc(nb), order=ordk, common=_nnzc(both),
                 a_only=bool((a_nz & ~b_nz).any()), b_only=bool((~a_nz & b_nz).any()), both_zero=bool((~a_nz & ~b_nz).any()),
                 full_A=(na == n), full_B=(nb == n))
        for rk, R in ((("sptensor", SB),) if case.get("large") else (("sptensor", SB), ("tensor", TB))):
            for name, uf in ARITH:
                _binary(ctx, SA, name, R, rk, uf(A, B), exact=True, AB=(A, B))
            for name, uf in LOGIC:
                _binary(ctx, SA, name, R, rk, uf(A != 0, B != 0), exact=False)
            for name, uf in COMP:
                _binary(ctx, SA, name, R, rk, uf(A, B), exact=False)
        if ordk == orders[-1]:
            ctx.feat(same_object=True)
            for name, uf in ARITH[:3]:
                _binary(ctx, SA, name, SA, "sptensor", uf(A, A), exact=True, AB=(A, A))
            for name, uf in LOGIC:
                _binary(ctx, SA, name, SA, "sptensor", uf(A != 0, A != 0), exact=False)
            for name, uf in COMP:
                _binary(ctx, SA, name, SA, "sptensor", uf(A, A), exact=False)
            ctx.feat(same_object=None)
            r = ctx.call("sptensor.logical_not", SA.logical_not)
            _judge(ctx, "sptensor.logical_not", r, "-", np.logical_not(A != 0), exact=False)
            c = float(SCALARS[gen.pick(case) % len(SCALARS)])
            cs_ = [c, float(SCALARS[(gen.pick(case) // 7) % len(SCALARS)])]
            for c in dict.fromkeys(cs_[:1] if case.get("large") else cs_):
                ctx.feat(scalar=("0" if c == 0 else "neg" if c < 0 else "pos"))
                for name, uf in ARITH:
                    _binary(ctx, SA, name, c, "scalar", uf(A, c), exact=True)
                for name, uf in LOGIC:
                    _binary(ctx, SA, name, c, "scalar", uf(A != 0, c != 0), exact=False)
                for name, uf in COMP:
                    _binary(ctx, SA, name, c, "scalar", uf(A, c), exact=False)
                r = ctx.call("sptensor.__rmul__", operator.mul, c, SA)
                _judge(ctx, "sptensor.__rmul__", r, "scalar", c * A, exact=True)
                r = ctx.call("sptensor.__rtruediv__", operator.truediv, c, SA)
                _judge(ctx, "sptensor.__rtruediv__", r, "scalar", np.true_divide(c, A), exact=True)
            ctx.feat(scalar="-0")
            with np.errstate(all="ignore"):
                # a negative zero divisor: x / -0.0 has the opposite sign of x / 0.0 (0 / -0.0 is NaN)
                _binary(ctx, SA, "__truediv__", -0.0, "scalar", np.true_divide(A, -0.0), exact=True, AB=(A, np.full(shape, -0.0)))
            # an infinite / NaN multiplier: an implicit zero times it is NaN, exactly as in the dense product (and as sparse / 0)
            cnf = [np.inf, -np.inf, np.nan][gen.pick(case) % 3]
            ctx.feat(scalar="nonfinite")
            with np.errstate(all="ignore"):
                _binary(ctx, SA, "__mul__", cnf, "scalar", A * cnf, exact=True, AB=(A, np.full(shape, cnf)))
                r = ctx.call("sptensor.__rmul__", operator.mul, cnf, SA)
                _judge(ctx, "sptensor.__rmul__", r, "scalar", cnf * A, exact=True, AB=(A, np.full(shape, cnf)))
                # a NaN divisor: 0 / NaN is NaN too
                _binary(ctx, SA, "__truediv__", np.nan, "scalar", A / np.nan, exact=True, AB=(A, np.full(shape, np.nan)))
            # a Python integer beyond the machine integers as multiplier
            ctx.feat(scalar="bigint")
            _binary(ctx, SA, "__mul__", 10 ** 30, "scalar", A * 1e30, exact=True, AB=(A, np.full(shape, 1e30)))
            r = ctx.call("sptensor.__rmul__", operator.mul, 10 ** 30, SA)
            _judge(ctx, "sptensor.__rmul__", r, "scalar", 1e30 * A, exact=True, AB=(A, np.full(shape, 1e30)))
            ctx.feat(scalar=None)
            if not case.get("large") and na:
                # dense right-hand side whose values at stored positions differ from the stored ones in the last bit only (or are the
                # same infinity): comparisons are exact
                Bn = np.where(a_nz.reshape(shape) & (rng.random(shape) < 0.5), np.nextafter(A, np.inf), A)
                Bn = np.where(rng.random(shape) < 0.2, 0.0, Bn)
                TBn = ttb.tensor(Bn.copy())
                ctx.feat(near_equal=True)
                for name, uf in COMP:
                    _binary(ctx, SA, name, TBn, "tensor", uf(A, Bn), exact=False)
                ctx.feat(near_equal=None)
            if not case.get("large"):
                # the dense right-hand side held as a Kruskal tensor (mixed signs, zero factor entries; small integers so that the
                # products are exact): S * K is S * K.full(), and a product that is zero is not stored
                R_ = 1 + gen.pick(case) % 3
                Us = [rng.choice([-2.0, -1.0, 0.0, 1.0, 2.0], size=(I, R_)) for I in shape]
                lam = rng.choice([1.0, -1.0, 2.0, 0.5], size=R_)
                Kf = np.zeros(shape)
                for r_ in range(R_):
                    t = np.array(lam[r_])
                    for U in Us:
                        t = np.multiply.outer(t, U[:, r_])
                    Kf = Kf + t
                K = ttb.ktensor([U.copy() for U in Us], lam.copy())
                _binary(ctx, SA, "__mul__", K, "ktensor", A * Kf, exact=True, AB=(A, Kf))
            r = ctx.call("sptensor.ones", SA.ones)
            _judge(ctx, "sptensor.ones", r, "-", (A != 0).astype(float), exact=True)
            r = ctx.call("sptensor.elemfun", SA.elemfun, lambda v: v * -3.0)
            _judge(ctx, "sptensor.elemfun", r, "-", A * -3.0, exact=True, fun="neg-scale")
            r = ctx.call("sptensor.elemfun", SA.elemfun, lambda v: v - 1.0)
            _judge(ctx, "sptensor.elemfun", r, "-", np.where(A != 0, A - 1.0, 0.0), exact=True, fun="shift")
    if gen.pick(case) % 4 == 1 and not case.get("large"):
        _typed_block(case, ctx, rng, A, B, shape)


def _typed_block(case, ctx, rng, A, B, shape):
    """Element types and non-finite stored values: the sparse result follows the dense (NumPy) result, including its type promotion."""
    na, nb = int(np.count_nonzero(A)), int(np.count_nonzero(B))
    Ai = np.where(A != 0, np.round(A * 2.0), 0.0)
    Bi = np.where(B != 0, np.round(B * 2.0), 0.0)
    pairs = [("int64", "float64", Ai.astype(np.int64), B), ("float64", "int64", A, Bi.astype(np.int64)), ("int32", "float64", Ai.astype(np.int32), B),
             ("float32", "float64", A.astype(np.float32), B * 1.1), ("int64", "int64", Ai.astype(np.int64), Bi.astype(np.int64))]
    ta, tb, Aa, Bb = pairs[gen.pick(case) % len(pairs)]
    if na and nb:
        SA = gen.mk_sptensor(ttb, Aa, gen.stored_order(rng, na, "shuffled"), dtype=Aa.dtype)
        SB = gen.mk_sptensor(ttb, Bb, gen.stored_order(rng, nb, "shuffled"), dtype=Bb.dtype)
        ctx.feat(vtypes=f"{ta}/{tb}", scalar=None)
        for name, uf in ARITH[:3]:
            want = uf(Aa, Bb)
            r = ctx.call("sptensor." + name, getattr(SA, name), SB)
            _judge(ctx, "sptensor." + name, r, "sptensor", np.asarray(want, dtype=float), exact=True, AB=(Aa, Bb))
        for name, uf in COMP:
            r = ctx.call("sptensor." + name, getattr(SA, name), SB)
            _judge(ctx, "sptensor." + name, r, "sptensor", uf(Aa, Bb), exact=False)
        ctx.feat(vtypes=None)
    if na:
        # a stored infinity / NaN: scalar multiples (times zero is NaN there, as in the dense result), negation, scalar comparisons
        An = A.copy()
        pos = np.argwhere(A != 0)
        An[tuple(pos[int(rng.integers(0, len(pos)))])] = [np.inf, -np.inf, np.nan][gen.pick(case) % 3]
        SN = gen.mk_sptensor(ttb, np.where(np.isnan(An), 1.0, An), gen.stored_order(rng, na, "shuffled"))
        if np.isnan(An).any():
            SN.vals[np.asarray(SN.vals).reshape(-1) == 1.0] = SN.vals[np.asarray(SN.vals).reshape(-1) == 1.0]     # (keeps genuine ones)
            k_ = [i for i, sub in enumerate(np.asarray(SN.subs).tolist()) if np.isnan(An[tuple(sub)])]
            SN.vals[k_] = np.nan
        ctx.feat(nonfinite=["+inf", "-inf", "nan"][gen.pick(case) % 3])
        with np.errstate(all="ignore"):
            for c in (0.0, -0.0, 2.0, -1.0):
                ctx.feat(scalar=("0" if c == 0 else "neg" if c < 0 else "pos"))
                r = ctx.call("sptensor.__mul__", operator.mul, SN, c)
                _judge(ctx, "sptensor.__mul__", r, "scalar", An * c, exact=True, AB=(An, np.full(shape, c)))
                r = ctx.call("sptensor.__rmul__", operator.mul, c, SN)
                _judge(ctx, "sptensor.__rmul__", r, "scalar", c * An, exact=True, AB=(An, np.full(shape, c)))
            ctx.feat(scalar=None)
            if not np.isnan(An).any():
                # the same infinity on the dense side: equal there, and ordered against finite neighbours
                Bd = np.where(rng.random(shape) < 0.5, An, An + 1.0)
                Bd = np.where(np.isinf(An), An, Bd)
                for name, uf in COMP:
                    r = ctx.call("sptensor." + name, getattr(SN, name), ttb.tensor(Bd.copy()))
                    _judge(ctx, "sptensor." + name, r, "tensor", uf(An, Bd), exact=False)
            # ... and against the second operand, sparse and dense, the second operand holding non-finite values of its own at
            # positions where the first is an implicit zero (0 * inf is NaN, comparisons with NaN are false)
            Bn_ = np.where(rng.random(shape) < 0.4, B, 0.0)
            zpos = np.argwhere((An == 0) & (Bn_ != 0))
            if len(zpos):
                Bn_[tuple(zpos[int(rng.integers(0, len(zpos)))])] = [np.inf, -np.inf, np.nan][(gen.pick(case) // 3) % 3]
            stored_b = (Bn_ != 0) | np.isnan(Bn_)
            sb = np.argwhere(stored_b)
            if len(sb):
                ordb = rng.permutation(len(sb))
                SBn = ttb.sptensor(sb[ordb], Bn_[tuple(sb[ordb].T)].reshape(-1, 1).copy(), shape)
            else:
                SBn = ttb.sptensor(shape=shape)
            for rk_, R_ in (("sptensor", SBn), ("tensor", ttb.tensor(Bn_.copy()))):
                for name, uf in list(ARITH[:3]) + list(COMP):
                    exact_ = (name, uf) in list(ARITH[:3])
                    r = ctx.call("sptensor." + name, getattr(SN, name), R_)
                    _judge(ctx, "sptensor." + name, r, rk_, uf(An, Bn_), exact=exact_, AB=((An, Bn_) if exact_ else None), both_nonfinite=True)
            # both operands are one and the same object (R = S / 0; R - R): inf - inf and NaN - NaN are NaN, x == x is false for NaN
            ctx.feat(same_object=True)
            for name, uf in list(ARITH[:3]) + list(COMP):
                exact_ = (name, uf) in list(ARITH[:3])
                r = ctx.call("sptensor." + name, getattr(SN, name), SN)
                _judge(ctx, "sptensor." + name, r, "sptensor", uf(An, An), exact=exact_, AB=((An, An) if exact_ else None), both_nonfinite=True)
            ctx.feat(same_object=None)
            r = ctx.call("sptensor.__neg__", operator.neg, SN)
            _judge(ctx, "sptensor.__neg__", r, "-", -An, exact=True)
            r = ctx.call("sptensor.__truediv__", operator.truediv, SN, 2.0)
            _judge(ctx, "sptensor.__truediv__", r, "scalar", An / 2.0, exact=True, AB=(An, np.full(shape, 2.0)))
        ctx.feat(nonfinite=None)


def _binary(ctx, SA, name, R, rk, want, exact, AB=None):
    op = "sptensor." + name
    fn = getattr(SA, name)
    r = ctx.call(op, fn, R)
    _judge(ctx, op, r, rk, want, exact, AB=AB)


def _vk(x):
    if np.isnan(x):
        return "nan"
    if np.isinf(x):
        return "+inf" if x > 0 else "-inf"
    return "0" if x == 0 else "x"


def _mismatch_classes(got, want, AB):
    """Where (by joint zero class of the operands) and how (value kinds) the result differs."""
    g = np.asarray(got, dtype=float).reshape(-1)
    w = np.asarray(want, dtype=float).reshape(-1)
    A, B = (np.asarray(x).reshape(-1) for x in AB)
    out = set()
    for i in range(g.size):
        if g[i] == w[i] or (np.isnan(g[i]) and np.isnan(w[i])):
            continue
        cls = ("A" if A[i] != 0 else "a") + ("B" if B[i] != 0 else "b")
        out.add(f"{cls}:{_vk(g[i])}-for-{_vk(w[i])}")
    return ",".join(sorted(out))


def _judge(ctx, op, r, rk, want, exact, AB=None, **feat):
    if not r.ok:
        ctx.check(False, op, "RAISE:" + type(r.exc).__name__, f"{type(r.exc).__name__}: {r.exc} | {r.tb}", rhs=rk, **feat)
        return
    res = r.value
    if res is NotImplemented:
        ctx.check(False, op, "RAISE:NotImplemented", "operator returned NotImplemented", rhs=rk, **feat)
        return
    k = kind(res)
    ctx.tag(f"{op.split('.')[-1]}({rk})->{k}")
    probs = []
    if k == "sptensor":
        from ..wellformed import wellformed

        probs = wellformed(res)
    if probs:
        ctx.check(False, op, "ILLFORMED:" + ("vals-rows!=subs-rows" if "vals-rows" in probs[0] else "other"), probs[0], rhs=rk, **feat)
        return
    got = denote(res)
    want = np.asarray(want)
    if exact:
        ok = got.shape == want.shape and same(got.astype(float), want.astype(float))
    else:
        ok = got.shape == want.shape and np.array_equal(_as_bool(got), want.astype(bool))
    if not ok and AB is not None and got.shape == want.shape:
        feat["mismatch"] = _mismatch_classes(got, want.astype(float), AB)
    ctx.check(ok, op, "WRONG", lambda: f"{op} rhs={rk}: got {k} {got.tolist()} want {want.tolist()}", rhs=rk, result=k, **feat)
