"""C19 -- ill-formed requests are rejected, not answered."""
import itertools
import operator
import os
import tempfile

import numpy as np

from .. import load
from .. import gen
from ..mutsan import state_digest
from .c05 import Env

np_, ttb = load()
ID = "C19"
MUTSAN = "off"
RULE = ("case = (precondition row = operation x way of violating one stated precondition, operand order N, case seed); every row is instantiated over "
        ">= 12 (quick) / >= 120 (thorough) random shapes so that mismatches that happen to broadcast (1 vs n), wrong lengths that divide the right one "
        "and same-cell-count-other-order shapes all occur; the call must raise and the receiver's state digest must be unchanged; "
        "non-trivial = every case; distinct = hash of case")
ANCHORS = ["pyttb_utils:tt_dimscheck", "tensor:tensor.innerprod", "tensor:tensor.mttkrp", "tensor:tensor.permute", "tensor:tensor.reshape",
           "tensor:tensor.to_tenmat", "tensor:tensor.contract", "tensor:tensor.scale", "tensor:tensor.ttm", "tensor:tensor.ttt", "tensor:tensor.ttv",
           "sptensor:sptensor.from_aggregator", "sptensor:sptensor.innerprod", "sptensor:sptensor.permute", "sptensor:sptensor.reshape",
           "sptensor:sptensor.ttv", "sptensor:sptensor.ttm", "sptensor:sptensor.extract", "ktensor:ktensor.__init__", "ktensor:ktensor.innerprod",
           "ktensor:ktensor.permute", "ktensor:ktensor.ttv", "ttensor:ttensor.__init__", "ttensor:ttensor.innerprod", "ttensor:ttensor.ttv",
           "ttensor:ttensor.ttm", "tenmat:tenmat.__init__", "tenmat:tenmat.__mul__", "sptenmat:sptenmat.__init__", "sumtensor:sumtensor.__init__",
           "khatrirao:khatrirao", "cp_als:cp_als", "cp_apr:cp_apr", "hosvd:hosvd", "tucker_als:tucker_als", "gcp_opt:gcp_opt", "import_data:import_data"]
WATCHDOG = {"quick": 900, "thorough": 3400}
ROWS = {}


def row(name, orders=(1, 2, 3)):
    def deco(f):
        ROWS[name] = {"make": f, "orders": orders}
        return f
    return deco


def nontrivial(case):
    return True


def gen_cases(tier, seed):
    cs = itertools.count(1)
    reps = 4 if tier == "quick" else 40
    for name, r in ROWS.items():
        for N in r["orders"]:
            for _ in range(reps):
                k = next(cs)
                # sparse holders: mostly partially filled, sometimes without any stored nonzero (where loops over nonzeros never run)
                yield {"w": "row", "row": name, "N": N, "cseed": int(seed) * 236887691 % (2 ** 31) + k, "fill": ["some", "none", "some", "all"][(k + int(seed)) % 4]}


def other_shape(e, how=None):
    """A shape different from e.shape: 'size' (one mode differs), 'broadcast' (one mode becomes 1), 'reorder' (same cells, other order)."""
    s = list(e.shape)
    how = how or ["size", "broadcast", "reorder"][int(e.rng.integers(0, 3))]
    if how == "reorder" and len(set(s)) > 1:
        p = list(s)
        while p == s:
            p = [int(x) for x in e.rng.permutation(s)]
        return tuple(p), how
    if how == "broadcast":
        cand = [i for i, x in enumerate(s) if x > 1]
        if cand:
            s[cand[int(e.rng.integers(0, len(cand)))]] = 1
            return tuple(s), how
    i = int(e.rng.integers(0, len(s)))
    s[i] = s[i] + int(e.rng.integers(1, 3))
    return tuple(s), "size"


def with_shape(e, shape):
    e2 = Env(e.rng, len(shape))
    e2.shape = tuple(shape)
    e2.fill = e.fill
    return e2


def one_past(e):
    """A subscript legal in every mode but one, where it is exactly one past the end."""
    sub = [int(e.rng.integers(0, s_)) for s_ in e.shape]
    m = int(e.rng.integers(0, e.N))
    sub[m] = int(e.shape[m])
    return sub, m


KINDS4 = ["tensor", "sptensor", "ktensor", "ttensor"]
KINDS5 = KINDS4 + ["sumtensor"]

# ---- A. inner products of different shapes ------------------------------------------------------
for _a in KINDS5:
    for _b in KINDS4:
        def _mkA(a, b):
            @row(f"innerprod:{a}x{b}:shape-mismatch")
            def _r(e, a=a, b=b):
                X = e.holder(a)
                shp, how = other_shape(e)
                Y = with_shape(e, shp).holder(b)
                return f"{a}.innerprod", X.innerprod, (Y,), {}, X, {"how": how}
        _mkA(_a, _b)

for _a in KINDS5:
    for _b in KINDS4:
        for _pos in ("first", "last"):
            def _mkA2(a, b, pos):
                @row(f"innerprod:{a}x{b}:only-the-{pos}-mode-differs", (2, 3))
                def _r(e, a=a, b=b, pos=pos):
                    # the operands agree in every mode but one (longer by one or two, or shorter)
                    X = e.holder(a)
                    shp = list(e.shape)
                    m = 0 if pos == "first" else e.N - 1
                    shp[m] = shp[m] + int(e.rng.integers(1, 3)) if (shp[m] == 1 or e.rng.random() < 0.6) else shp[m] - 1
                    Y = with_shape(e, shp).holder(b)
                    return f"{a}.innerprod", X.innerprod, (Y,), {}, X, {}
            _mkA2(_a, _b, _pos)


@row("innerprod:empty-sptensor-receiver:shape-mismatch")
def _(e):
    X = ttb.sptensor(shape=e.shape)
    shp, how = other_shape(e)
    Y = with_shape(e, shp).holder(KINDS4[int(e.rng.integers(0, 4))])
    return "sptensor.innerprod", X.innerprod, (Y,), {}, X, {"how": how}


@row("innerprod:empty-sptensor-operand:shape-mismatch")
def _(e):
    X = e.holder(KINDS4[int(e.rng.integers(0, 4))])
    shp, how = other_shape(e)
    Y = ttb.sptensor(shape=shp)
    return "innerprod", X.innerprod, (Y,), {}, X, {"how": how}


for _ver in (None, 1, 2):
    for _skip in (None, 0, 1):
        def _mkTtsv(ver, skip):
            @row(f"tensor.ttsv(version={ver}, skip_dim={skip}):modes-not-all-as-long-as-the-vector", (2, 3))
            def _(e, ver=ver, skip=skip):
                # one mode longer / shorter than the others (the vector fits the first mode), or a cubical tensor and a vector of another length
                n = int(e.rng.integers(2, 4))
                shp = [n] * e.N
                c = int(e.rng.integers(0, 3))
                vlen = n
                mult = list(range(0 if skip is None else skip + 1, e.N))      # the modes that are multiplied
                if not mult:
                    return None
                if c == 1 and len(mult) < 2:
                    c = 0
                if c == 0:
                    shp[mult[int(e.rng.integers(0, len(mult)))]] = n + 1
                elif c == 1:
                    # two multiplied modes of half and twice the length: the number of entries is that of a cubical tensor
                    n = [2, 4][int(e.rng.integers(0, 2))]
                    shp = [n] * e.N
                    vlen = n
                    shp[mult[-1]], shp[mult[-2]] = n * 2, n // 2
                else:
                    vlen = n + 1
                X = with_shape(e, shp).tensor()
                kw = {} if ver is None else {"version": ver}
                args = (gen.normals(e.rng, (vlen,)),) + (() if skip is None else (skip,))
                return "tensor.ttsv", X.ttsv, args, kw, X, {"what": ["one-mode-longer", "products-agree", "vector-length"][c]}
        _mkTtsv(_ver, _skip)


# ---- B. element-wise operators on different shapes -------------------------------------------------
for _k in ("sptensor",):
    for _o in ("add", "sub", "mul", "truediv", "eq", "ne", "lt", "le", "gt", "ge"):
        for _ok in ("tensor", "sptensor"):
            def _mkB(k, o, ok):
                @row(f"{k}.__{o}__({ok}):shape-mismatch")
                def _r(e, k=k, o=o, ok=ok):
                    if k == "tensor" and ok == "sptensor":
                        return None
                    X = e.holder(k)
                    shp, how = other_shape(e)
                    Y = with_shape(e, shp).holder(ok)
                    return f"{k}.__{o}__", getattr(operator, o), (X, Y), {}, X, {"how": how, "other": ok}
            _mkB(_k, _o, _ok)
    for _o in ("logical_and", "logical_or", "logical_xor"):
        for _ok in ("tensor", "sptensor"):
            def _mkB2(k, o, ok):  # noqa: E306
                @row(f"{k}.{o}({ok}):shape-mismatch")
                def _r(e, k=k, o=o, ok=ok):
                    if k == "tensor" and ok == "sptensor":
                        return None
                    X = e.holder(k)
                    shp, how = other_shape(e)
                    Y = with_shape(e, shp).holder(ok)
                    return f"{k}.{o}", getattr(X, o), (Y,), {}, X, {"how": how, "other": ok}
            _mkB2(_k, _o, _ok)


@row("ktensor.__add__:shape-mismatch")
def _(e):
    X = e.ktensor()
    shp, how = other_shape(e, "size")
    return "ktensor.__add__", operator.add, (X, with_shape(e, shp).ktensor()), {}, X, {"how": how}


@row("ktensor.__sub__:shape-mismatch")
def _(e):
    X = e.ktensor()
    shp, how = other_shape(e, "size")
    return "ktensor.__sub__", operator.sub, (X, with_shape(e, shp).ktensor()), {}, X, {"how": how}


@row("ktensor.__mul__:non-scalar")
def _(e):
    X = e.ktensor()
    return "ktensor.__mul__", operator.mul, (X, e.ktensor()), {}, X, {}


def _tenmat_binary_rows():
    # every element-wise operator of the matricized tensor x every way two operands can disagree: another tensor shape, or the same
    # tensor unfolded differently -- including the pair (1 x P, P x 1), which NumPy would happily broadcast to P x P
    for opname, fn in (("__add__", operator.add), ("__sub__", operator.sub)):
        def other_shape_row(e, fn=fn, opname=opname):
            M = e.tenmat()
            shp, how = other_shape(e, "size")
            M2 = with_shape(e, shp).tenmat()
            if M2.shape == M.shape:
                return None
            return "tenmat." + opname, fn, (M, M2), {}, M, {}

        def other_split_row(e, fn=fn, opname=opname):
            T = e.tensor()
            alln = np.arange(e.N)
            none = np.array([], dtype=int)
            if int(np.prod(e.shape)) < 2:
                return None
            if e.rng.random() < 0.5:
                M, M2 = T.to_tenmat(alln, none), T.to_tenmat(none, alln)          # P x 1 against 1 x P
            else:
                M, M2 = T.to_tenmat(none, alln), T.to_tenmat(alln, none)
            return "tenmat." + opname, fn, (M, M2), {}, M, {"broadcastable": True}
        ROWS[f"tenmat.{opname}:operand-of-another-tensor-shape"] = {"make": other_shape_row, "orders": (2, 3)}
        ROWS[f"tenmat.{opname}:same-tensor-other-split(broadcastable)"] = {"make": other_split_row, "orders": (1, 2, 3)}


_tenmat_binary_rows()


@row("tenmat.__mul__:inner-dimension-mismatch", (2, 3))
def _(e):
    M = e.tenmat()
    M2 = e.tenmat()
    if M.shape[1] == M2.shape[0]:
        return None
    return "tenmat.__mul__", operator.mul, (M, M2), {}, M, {}


# ---- C. multiplicands of the wrong size -----------------------------------------------------------------
def _bad_len(e, n):
    c = int(e.rng.integers(0, 4))
    if c == 0:
        return n + 1
    if c == 1 and n > 1:
        return n - 1
    if c == 2 and n % 2 == 0 and n > 2:
        return n // 2      # a length that divides the right one
    return 2 * n           # a multiple


for _k in KINDS5:
    def _mkC(k):
        @row(f"{k}.ttv:wrong-length-vector")
        def _r(e, k=k):
            X = e.holder(k)
            d = int(e.rng.integers(0, e.N))
            v = gen.normals(e.rng, (_bad_len(e, e.shape[d]),))
            return f"{k}.ttv", X.ttv, (v, d), {}, X, {}

        @row(f"{k}.ttv:wrong-length-in-list")
        def _r2(e, k=k):
            X = e.holder(k)
            vs = e.vecs()
            d = int(e.rng.integers(0, e.N))
            vs[d] = gen.normals(e.rng, (_bad_len(e, e.shape[d]),))
            return f"{k}.ttv", X.ttv, (vs,), {}, X, {}

        @row(f"{k}.ttv:too-many-vectors")
        def _r3(e, k=k):
            X = e.holder(k)
            vs = e.vecs() + [gen.normals(e.rng, (2,))]
            return f"{k}.ttv", X.ttv, (vs,), {}, X, {}

        @row(f"{k}.ttv:wrong-number-of-vectors", (3,))
        def _r4(e, k=k):
            X = e.holder(k)
            vs = e.vecs()
            return f"{k}.ttv", X.ttv, (vs[:2], np.array([0])), {}, X, {}

        @row(f"{k}.mttkrp:wrong-list-length", (2, 3))
        def _r5(e, k=k):
            X = e.holder(k)
            U = e.factors(2)
            U = U[:-1] if e.rng.random() < 0.5 else U + [U[0]]
            return f"{k}.mttkrp", X.mttkrp, (U, 0), {}, X, {}

        @row(f"{k}.mttkrp:wrong-row-count", (2, 3))
        def _r6(e, k=k):
            X = e.holder(k)
            U = e.factors(2)
            n = int(e.rng.integers(0, e.N))
            m = [i for i in range(e.N) if i != n][0]
            U[m] = gen.normals(e.rng, (e.shape[m] + 1, 2))
            return f"{k}.mttkrp", X.mttkrp, (U, n), {}, X, {}

        @row(f"{k}.mttkrp:column-count-mismatch", (3,))
        def _r7(e, k=k):
            X = e.holder(k)
            U = e.factors(2)
            n = 0
            U[1] = gen.normals(e.rng, (e.shape[1], 3))
            return f"{k}.mttkrp", X.mttkrp, (U, n), {}, X, {}

        @row(f"{k}.mttkrp:mode-out-of-range", (2, 3))
        def _r8(e, k=k):
            X = e.holder(k)
            return f"{k}.mttkrp", X.mttkrp, (e.factors(2), e.N + int(e.rng.integers(0, 2))), {}, X, {}

        @row(f"{k}.mttkrp:kruskal-operand-wrong-order", (2, 3))
        def _r9(e, k=k):
            # the factors handed over as a Kruskal tensor of another order: surplus trailing modes (of size 1 or more) whose leading modes
            # fit, or a trailing mode missing
            X = e.holder(k)
            U = e.factors(2)
            c = int(e.rng.integers(0, 3))
            U = U + [gen.normals(e.rng, (1 if c == 0 else int(e.rng.integers(2, 4)), 2))] if c < 2 else U[:-1]
            n = [0, e.N - 1, int(e.rng.integers(0, e.N))][int(e.rng.integers(0, 3))]
            if c == 2:
                n = 0
            return f"{k}.mttkrp", X.mttkrp, (ttb.ktensor(U, np.array([1.0, 2.0])), n), {}, X, {"surplus": ["singleton", "longer", "missing"][c]}
    _mkC(_k)

for _k in ("tensor", "sptensor", "ttensor"):
    for _tr in (False, True):
        def _mkC2(k, tr):
            @row(f"{k}.ttm:wrong-size-matrix:transpose={tr}")
            def _r(e, k=k, tr=tr):
                X = e.holder(k)
                d = int(e.rng.integers(0, e.N))
                bad = _bad_len(e, e.shape[d])
                J = e.shape[d] if e.rng.random() < 0.5 else 2   # the *other* dimension may equal the mode size: only the contracted one counts
                M = gen.normals(e.rng, (bad, J) if tr else (J, bad))
                return f"{k}.ttm", X.ttm, (M, d), {"transpose": tr}, X, {}

            @row(f"{k}.ttm:one-bare-matrix-for-several-modes:transpose={tr}", (3,))
            def _r3(e, k=k, tr=tr):
                # one matrix, not in a list, with two or three modes named (by dims, by exclude_dims, or by naming none): the list
                # form of the same request is rejected, so must this one be; the matrix fits the lowest named mode
                X = e.holder(k)
                c = int(e.rng.integers(0, 3))
                kw = [{"dims": np.array([0, 2])}, {"exclude_dims": np.array([0])}, {}][c]
                low = [0, 1, 0][c]
                M = gen.normals(e.rng, (e.shape[low], 2) if tr else (2, e.shape[low]))
                return f"{k}.ttm", X.ttm, (M,), dict(kw, transpose=tr), X, {"named_by": ["dims", "exclude_dims", "nothing"][c]}

            @row(f"{k}.ttm:too-many-matrices:transpose={tr}")
            def _r2(e, k=k, tr=tr):
                X = e.holder(k)
                Ms = e.mats(transpose=tr) + [gen.normals(e.rng, (2, 2))]
                return f"{k}.ttm", X.ttm, (Ms,), {"transpose": tr}, X, {}
        _mkC2(_k, _tr)

# ---- D. mode arguments ------------------------------------------------------------------------------------
MODE_OPS = []
for _k in KINDS5:
    MODE_OPS.append((_k, "ttv"))
for _k in ("tensor", "sptensor", "ttensor"):
    MODE_OPS.append((_k, "ttm"))
for _k in ("tensor", "sptensor"):
    MODE_OPS.append((_k, "collapse"))
    MODE_OPS.append((_k, "scale"))


def _mode_call(e, k, op, dims):
    X = e.holder(k)
    dl = [int(d) for d in np.asarray(dims).reshape(-1)]
    if op == "ttv":
        vs = [gen.normals(e.rng, (e.shape[d % e.N] if isinstance(d, int) else 2,)) for d in dl]
        return X.ttv, (vs, np.array(dims)), {}, X
    if op == "ttm":
        Ms = [gen.normals(e.rng, (2, e.shape[d % e.N])) for d in dl]
        return X.ttm, (Ms, np.array(dims)), {}, X
    if op == "collapse":
        return X.collapse, (np.array(dims),), {}, X
    f = gen.normals(e.rng, tuple(e.shape[d % e.N] for d in sorted(set(dl)))) if len(dl) > 1 else gen.normals(e.rng, (e.shape[dl[0] % e.N],))
    return X.scale, (f if f.ndim == 1 else ttb.tensor(f), np.array(dims)), {}, X


for _k, _op in MODE_OPS:
    def _mkD(k, op):
        @row(f"{k}.{op}:mode-out-of-range")
        def _r(e, k=k, op=op):
            fn, a, kw, X = _mode_call(e, k, op, [e.N + int(e.rng.integers(0, 2))])
            return f"{k}.{op}", fn, a, kw, X, {}

        @row(f"{k}.{op}:negative-mode", (2, 3))
        def _r2(e, k=k, op=op):
            fn, a, kw, X = _mode_call(e, k, op, [-1])
            return f"{k}.{op}", fn, a, kw, X, {}

        @row(f"{k}.{op}:repeated-mode", (2, 3))
        def _r3(e, k=k, op=op):
            d = int(e.rng.integers(0, e.N))
            fn, a, kw, X = _mode_call(e, k, op, [d, d])
            return f"{k}.{op}", fn, a, kw, X, {}
    _mkD(_k, _op)


@row("tt_dimscheck:dims-and-exclude")
def _(e):
    from pyttb import pyttb_utils as U

    return "tt_dimscheck", U.tt_dimscheck, (e.N, None, np.array([0]), np.array([0])), {}, None, {}


@row("tt_dimscheck:mode-past-the-last-one")
def _(e):
    from pyttb import pyttb_utils as U

    dims = [int(x) for x in e.rng.permutation(e.N)[: int(e.rng.integers(0, e.N + 1))]] + [e.N + int(e.rng.integers(0, 3))]
    return "tt_dimscheck", U.tt_dimscheck, (e.N, None, np.array(dims), None), {}, None, {"with_valid_modes": len(dims) > 1}


@row("tt_dimscheck:too-many-multiplicands")
def _(e):
    from pyttb import pyttb_utils as U

    return "tt_dimscheck", U.tt_dimscheck, (e.N, e.N + 1, None, None), {}, None, {}


for _k in KINDS4:
    def _mkD2(k):
        @row(f"{k}.permute:repeated-entry", (2, 3))
        def _r(e, k=k):
            X = e.holder(k)
            p = np.arange(e.N)
            p[-1] = p[0]
            return f"{k}.permute", X.permute, (p,), {}, X, {}

        @row(f"{k}.permute:wrong-length")
        def _r2(e, k=k):
            X = e.holder(k)
            p = np.arange(e.N + 1) if e.rng.random() < 0.5 or e.N == 1 else np.arange(e.N - 1)
            return f"{k}.permute", X.permute, (p,), {}, X, {}

        @row(f"{k}.permute:out-of-range", (2, 3))
        def _r3(e, k=k):
            X = e.holder(k)
            p = np.arange(e.N)
            p[int(e.rng.integers(0, e.N))] = e.N
            return f"{k}.permute", X.permute, (p,), {}, X, {}

        @row(f"{k}.permute:negative-entry", (2, 3))
        def _r4(e, k=k):
            X = e.holder(k)
            p = np.arange(e.N)
            p[-1] = -1     # numpy would read it as the last axis: a silent reinterpretation
            p[0], p[-1] = p[-1], p[0]
            return f"{k}.permute", X.permute, (p,), {}, X, {}

        @row(f"{k}.permute:all-ones", (2, 3))
        def _r4b(e, k=k):
            X = e.holder(k)
            return f"{k}.permute", X.permute, (np.ones(e.N, dtype=int),), {}, X, {}

        @row(f"{k}.nvecs:mode-out-of-range", (2, 3))
        def _r5(e, k=k):
            X = e.holder(k)
            return f"{k}.nvecs", X.nvecs, (e.N, 1), {}, X, {}
    _mkD2(_k)

for _k in ("tensor", "sptensor"):
    def _mkD3(k):
        @row(f"{k}.contract:same-mode", (2, 3))
        def _r(e, k=k):
            X = e.holder(k)
            return f"{k}.contract", X.contract, (0, 0), {}, X, {}

        @row(f"{k}.contract:unequal-sizes", (2, 3))
        def _r2(e, k=k):
            s = list(e.shape)
            s[1] = s[0] + 1
            e.shape = tuple(s)
            X = e.holder(k)
            return f"{k}.contract", X.contract, (0, 1), {}, X, {}

        @row(f"{k}.contract:mode-out-of-range", (2, 3))
        def _r3(e, k=k):
            X = e.holder(k)
            return f"{k}.contract", X.contract, (0, e.N), {}, X, {}

        @row(f"{k}.reshape:changes-element-count")
        def _r4(e, k=k):
            X = e.holder(k)
            n = int(np.prod(e.shape))
            return f"{k}.reshape", X.reshape, ((n + 1,) if e.rng.random() < 0.5 else (n, 2),), {}, X, {}

        @row(f"{k}.scale:factor-wrong-shape")
        def _r5(e, k=k):
            X = e.holder(k)
            d = int(e.rng.integers(0, e.N))
            return f"{k}.scale", X.scale, (gen.normals(e.rng, (_bad_len(e, e.shape[d]),)), np.array([d])), {}, X, {}

        if k == "tensor":
            @row("tensor.scale:same-count-wrong-shape", (2, 3))
            def _r5b(e, k=k):
                # scaling over two modes of unequal size with a factor of the right element count but another shape: transposed, flattened,
                # re-factored, or with an extra singleton mode
                e.shape = tuple([3, 4] + list(e.shape[2:]))
                X = e.holder(k)
                f = gen.normals(e.rng, (3, 4))
                c = int(e.rng.integers(0, 4))
                g = [f.T.copy(), f.reshape(-1).copy(), f.reshape(2, 6).copy(), f.reshape(3, 1, 4).copy()][c]
                return "tensor.scale", X.scale, (ttb.tensor(g) if (g.ndim > 1 and e.rng.random() < 0.5) else g, np.array([0, 1])), {}, X, \
                    {"form": ["transposed", "flattened", "refactored", "extra-singleton"][c]}

        @row(f"{k}.mask:mask-bigger-than-tensor")
        def _r6(e, k=k):
            X = e.holder(k)
            big = with_shape(e, tuple(s + 1 for s in e.shape))
            W = ttb.tensor(np.ones(big.shape)) if k == "tensor" else ttb.tensor(np.ones(big.shape)).to_sptensor()
            return f"{k}.mask", X.mask, (W,), {}, X, {}

        @row(f"{k}.mask:mask-of-another-order", (2, 3))
        def _r7(e, k=k):
            # fewer modes (fits mode for mode as far as it goes) or one more (a trailing mode of size 1 or 2)
            X = e.holder(k)
            c = int(e.rng.integers(0, 3))
            wshape = [tuple(e.shape[:-1]), tuple(e.shape) + (1,), (1,)][c]
            W = ttb.tensor(np.ones(wshape)) if k == "tensor" else ttb.tensor(np.ones(wshape)).to_sptensor()
            return f"{k}.mask", X.mask, (W,), {}, X, {"mask_order": ["lower", "higher", "one-way"][c]}
    _mkD3(_k)


@row("sptensor.reshape:partial-changes-element-count", (2, 3))
def _(e):
    X = e.sptensor()
    return "sptensor.reshape", X.reshape, ((e.shape[0] + 1,), np.array([0])), {}, X, {}


@row("sptensor.extract:subscript-out-of-range")
def _(e):
    X = e.sptensor()
    sub, m = one_past(e)
    subs = np.array([sub]) if e.rng.random() < 0.5 else np.array([[0] * e.N, sub])
    return "sptensor.extract", X.extract, (subs,), {}, X, {"last_mode": m == e.N - 1}


@row("sptensor.extract:negative-subscript")
def _(e):
    X = e.sptensor()
    subs = np.array([[-1] * e.N])
    return "sptensor.extract", X.extract, (subs,), {}, X, {}


@row("tensor.ttt:contracted-sizes-differ", (2, 3))
def _(e):
    X = e.tensor()
    s = list(e.shape)
    s[0] = s[0] + 1
    Y = with_shape(e, s).tensor()
    return "tensor.ttt", X.ttt, (Y, np.array([0]), np.array([0])), {}, X, {}


@row("tensor.ttt:non-tensor-operand", (2,))
def _(e):
    X = e.tensor()
    return "tensor.ttt", X.ttt, (e.sptensor(),), {}, X, {}


@row("tensor.to_tenmat:dims-not-a-partition", (2, 3))
def _(e):
    X = e.tensor()
    return "tensor.to_tenmat", X.to_tenmat, (np.array([0]), np.array([0])), {}, X, {}


@row("tensor.to_tenmat:dims-out-of-range", (2, 3))
def _(e):
    X = e.tensor()
    return "tensor.to_tenmat", X.to_tenmat, (np.array([e.N]),), {}, X, {}


@row("tensor.to_tenmat:missing-mode", (3,))
def _(e):
    X = e.tensor()
    return "tensor.to_tenmat", X.to_tenmat, (np.array([0]), np.array([1])), {}, X, {}


@row("sptensor.to_sptenmat:dims-not-a-partition", (2, 3))
def _(e):
    X = e.sptensor()
    return "sptensor.to_sptenmat", X.to_sptenmat, (np.array([0]), np.array([0])), {}, X, {}


@row("tensor.symmetrize:non-cubical-group", (2, 3))
def _(e):
    s = list(e.shape)
    s[1] = s[0] + 1
    X = with_shape(e, s).tensor()
    return "tensor.symmetrize", X.symmetrize, (np.array([0, 1]),), {}, X, {}


for _ver in (None, 1):
    for _which in (0, 1, 2):
        for _odd in ("larger", "smaller", "one"):
            def _mkSym(ver, which, oddk):
                @row(f"tensor.symmetrize:{['first', 'middle', 'last'][which]}-listed-mode-of-the-group-is-{oddk}(version={ver})", (3,))
                def _(e, ver=ver, which=which, oddk=oddk):
                    n = int(e.rng.integers(2, 4))
                    odd = {"larger": n + 1, "smaller": n - 1, "one": 1}[oddk]
                    g = [int(x) for x in e.rng.permutation(3)]
                    s = [n, n, n]
                    s[g[which]] = odd
                    X = with_shape(e, s).tensor()
                    kw = {} if ver is None else {"version": ver}
                    return "tensor.symmetrize", X.symmetrize, (np.array(g),), kw, X, {"odd_size": odd}
            _mkSym(_ver, _which, _odd)


@row("tensor.symmetrize:overlapping-groups", (3,))
def _(e):
    X = with_shape(e, (2, 2, 2)).tensor()
    return "tensor.symmetrize", X.symmetrize, (np.array([[0, 1], [1, 2]]),), {}, X, {}


@row("ktensor.symmetrize:non-cubical", (2, 3))
def _(e):
    s = list(e.shape)
    s[1] = s[0] + 1
    X = with_shape(e, s).ktensor()
    return "ktensor.symmetrize", X.symmetrize, (), {}, X, {}


# ---- Kruskal / Tucker method arguments -------------------------------------------------------------------
@row("ktensor.arrange:permutation-wrong-length")
def _(e):
    X = e.ktensor(R=3)
    return "ktensor.arrange", X.arrange, (), {"permutation": np.array([0, 1])}, X, {}


@row("ktensor.arrange:weight-and-permutation")
def _(e):
    X = e.ktensor(R=2)
    return "ktensor.arrange", X.arrange, (), {"permutation": np.array([1, 0]), "weight_factor": 0}, X, {}


@row("ktensor.extract:component-out-of-range")
def _(e):
    X = e.ktensor(R=2)
    return "ktensor.extract", X.extract, (np.array([0, 2]),), {}, X, {}


@row("ktensor.redistribute:mode-out-of-range")
def _(e):
    X = e.ktensor()
    return "ktensor.redistribute", X.redistribute, (e.N,), {}, X, {}


@row("ktensor.normalize:weight-factor-out-of-range")
def _(e):
    X = e.ktensor()
    return "ktensor.normalize", X.normalize, (), {"weight_factor": e.N}, X, {}


@row("ktensor.normalize:mode-out-of-range")
def _(e):
    X = e.ktensor()
    return "ktensor.normalize", X.normalize, (), {"mode": e.N}, X, {}


@row("ktensor.tolist:mode-out-of-range")
def _(e):
    X = e.ktensor()
    return "ktensor.tolist", X.tolist, (e.N,), {}, X, {}


@row("ktensor.update:data-too-short")
def _(e):
    X = e.ktensor(R=2)
    return "ktensor.update", X.update, (0, gen.normals(e.rng, (e.shape[0] * 2 - 1,))), {}, X, {}


@row("ktensor.update:data-too-short-for-a-later-mode", (2, 3))
def _(e):
    X = e.ktensor(R=2)
    n = e.shape[0] * 2 + e.shape[1] * 2 - 1      # enough for mode 0, one value short for mode 1
    return "ktensor.update", X.update, (np.array([0, 1]), gen.normals(e.rng, (n,))), {}, X, {}


@row("ktensor.update:modes-not-ascending", (2, 3))
def _(e):
    X = e.ktensor(R=2)
    n = e.shape[0] * 2 + e.shape[1] * 2
    return "ktensor.update", X.update, (np.array([1, 0]), gen.normals(e.rng, (n,))), {}, X, {}


@row("ktensor.update:mode-out-of-range")
def _(e):
    X = e.ktensor(R=2)
    return "ktensor.update", X.update, (e.N, gen.normals(e.rng, (4,))), {}, X, {}


@row("ktensor.from_vector:wrong-length")
def _(e):
    if sum(e.shape) == 1:
        return None   # every length is a whole number of components
    n = sum(e.shape) * 2
    return "ktensor.from_vector", ttb.ktensor.from_vector, (gen.normals(e.rng, (n + 1,)), e.shape, False), {}, None, {}


@row("ktensor.score:shape-mismatch", (2, 3))
def _(e):
    X = e.ktensor(R=2)
    shp, _ = other_shape(e, "size")
    return "ktensor.score", X.score, (with_shape(e, shp).ktensor(R=2),), {}, X, {}


@row("ktensor.mask:mask-wrong-order", (2, 3))
def _(e):
    X = e.ktensor()
    W = ttb.tensor(np.ones(e.shape + (2,)))
    return "ktensor.mask", X.mask, (W,), {}, X, {}


@row("ttensor.reconstruct:samples-modes-length-mismatch", (2, 3))
def _(e):
    X = e.ttensor()
    return "ttensor.reconstruct", X.reconstruct, ([np.array([0]), np.array([0])], [0]), {}, X, {}


@row("ttensor.reconstruct:modes-without-samples", (2, 3))
def _(e):
    X = e.ttensor()
    return "ttensor.reconstruct", X.reconstruct, (None, [0]), {}, X, {}


# ---- F. constructors --------------------------------------------------------------------------------------
@row("tensor.__init__:shape-does-not-fit-data")
def _(e):
    a = e.arr()
    n = a.size
    return "tensor.__init__", ttb.tensor, (a, (n + 1,) if e.rng.random() < 0.5 else tuple(list(e.shape) + [2])), {}, None, {}


@row("tensor.__init__:non-array-data")
def _(e):
    return "tensor.__init__", ttb.tensor, ([[1.0, 2.0]],), {}, None, {}


@row("sptensor.__init__:subscript-outside-shape")
def _(e):
    sub, m = one_past(e)
    subs = np.array([sub])
    return "sptensor.__init__", ttb.sptensor, (subs, np.array([[1.0]]), e.shape), {}, None, {"last_mode": m == e.N - 1}


@row("sptensor.__init__:only-subs")
def _(e):
    return "sptensor.__init__", ttb.sptensor, (np.zeros((1, e.N), dtype=int), None, e.shape), {}, None, {}


@row("sptensor.from_aggregator:subscript-outside-shape")
def _(e):
    sub, m = one_past(e)
    subs = np.array([sub, [0] * e.N])
    return "sptensor.from_aggregator", ttb.sptensor.from_aggregator, (subs, np.array([[1.0], [2.0]]), e.shape), {}, None, {"last_mode": m == e.N - 1}


@row("sptensor.from_aggregator:subscript-outside-shape(aggregates to zero)")
def _(e):
    # the offending row carries / aggregates to the value 0 (explicit zero, cancelling duplicates, a reducer that returns 0): it is still
    # an inconsistent request, whatever happens to zero results afterwards
    sub, m = one_past(e)
    inside = [int(e.rng.integers(0, s_)) for s_ in e.shape]
    how = int(e.rng.integers(0, 3))
    if how == 0:
        subs, vals, fun = np.array([sub, inside]), np.array([[0.0], [2.0]]), None
    elif how == 1:
        subs, vals, fun = np.array([sub, inside, sub]), np.array([[2.5], [1.0], [-2.5]]), None
    else:
        subs, vals, fun = np.array([sub, sub, inside]), np.array([[0.0], [4.0], [3.0]]), np.min
    args = (subs, vals, e.shape) if fun is None else (subs, vals, e.shape, fun)
    return "sptensor.from_aggregator", ttb.sptensor.from_aggregator, args, {}, None, {"how": ["explicit-zero", "cancelling", "reducer-zero"][how]}


@row("sptensor.from_aggregator:count-mismatch")
def _(e):
    subs = np.zeros((3, e.N), dtype=int)
    subs[1, 0] = min(1, e.shape[0] - 1)
    return "sptensor.from_aggregator", ttb.sptensor.from_aggregator, (subs, np.array([[1.0], [2.0]]), e.shape), {}, None, {}


@row("sptensor.from_aggregator:more-subscript-columns-than-modes")
def _(e):
    subs = np.zeros((2, e.N + 1), dtype=int)
    return "sptensor.from_aggregator", ttb.sptensor.from_aggregator, (subs, np.array([[1.0], [2.0]]), e.shape), {}, None, {}


@row("sptensor.from_aggregator:negative-subscript")
def _(e):
    subs = np.zeros((2, e.N), dtype=int)
    subs[0, 0] = -1
    return "sptensor.from_aggregator", ttb.sptensor.from_aggregator, (subs, np.array([[1.0], [2.0]]), e.shape), {}, None, {}


@row("ktensor.__init__:column-count-mismatch", (2, 3))
def _(e):
    fm = e.factors(2)
    fm[-1] = gen.normals(e.rng, (e.shape[-1], 3))
    return "ktensor.__init__", ttb.ktensor, (fm,), {}, None, {}


@row("ktensor.__init__:weights-length-mismatch")
def _(e):
    return "ktensor.__init__", ttb.ktensor, (e.factors(2), np.array([1.0, 2.0, 3.0])), {}, None, {}


@row("ktensor.__init__:non-array-factor")
def _(e):
    fm = e.factors(2)
    fm[0] = fm[0].tolist()
    return "ktensor.__init__", ttb.ktensor, (fm,), {}, None, {}


@row("ktensor.__init__:one-dimensional-factor")
def _(e):
    fm = e.factors(2)
    fm[0] = fm[0][:, 0]
    return "ktensor.__init__", ttb.ktensor, (fm,), {}, None, {}


@row("ktensor.__init__:three-dimensional-factor")
def _(e):
    fm = e.factors(2)
    k_ = int(e.rng.integers(0, len(fm)))
    fm[k_] = np.stack([fm[k_], fm[k_]], axis=[0, 2][int(e.rng.integers(0, 2))])
    return "ktensor.__init__", ttb.ktensor, (fm,), {}, None, {}


@row("sptenmat.__init__:negative-subscript", (2, 3))
def _(e):
    M = e.sptenmat()
    subs = np.array([[[-1, 0], [0, -1], [-M.shape[0], 0]][int(e.rng.integers(0, 3))], [0, 0]])
    return "sptenmat.__init__", ttb.sptenmat, (subs, np.array([[1.0], [2.0]]), np.array(M.rdims), np.array(M.cdims), tuple(M.tshape)), {}, None, {}


@row("ttensor.__init__:factor-columns-vs-core", (2, 3))
def _(e):
    T = e.ttensor()
    fm = [f.copy() for f in T.factor_matrices]
    fm[0] = gen.normals(e.rng, (e.shape[0], T.core.shape[0] + 1))
    return "ttensor.__init__", ttb.ttensor, (T.core, fm), {}, None, {}


@row("ttensor.__init__:wrong-number-of-factors", (2, 3))
def _(e):
    T = e.ttensor()
    return "ttensor.__init__", ttb.ttensor, (T.core, list(T.factor_matrices)[:-1]), {}, None, {}


@row("ttensor.__init__:core-not-a-tensor", (2,))
def _(e):
    T = e.ttensor()
    return "ttensor.__init__", ttb.ttensor, (np.array(T.core.full().data), list(T.factor_matrices)), {}, None, {}


@row("tenmat.__init__:data-shape-vs-dims", (2, 3))
def _(e):
    M = e.tenmat()
    d = np.array(M.data)
    bad = np.zeros((d.shape[0] + 1, d.shape[1]))
    return "tenmat.__init__", ttb.tenmat, (bad, np.array(M.rindices), np.array(M.cindices), tuple(M.tshape)), {}, None, {}


@row("tenmat.__init__:matrix-split-does-not-match-dims", (2, 3))
def _(e):
    M = e.tenmat()
    d = np.array(M.data)
    if d.shape[0] == d.shape[1] or 1 in d.shape:
        return None
    return "tenmat.__init__", ttb.tenmat, (np.ascontiguousarray(d.T), np.array(M.rindices), np.array(M.cindices), tuple(M.tshape)), {}, None, {}


@row("tenmat.__init__:dims-not-a-partition", (2, 3))
def _(e):
    M = e.tenmat()
    return "tenmat.__init__", ttb.tenmat, (np.array(M.data), np.array([0]), np.array([0]), tuple(M.tshape)), {}, None, {}


@row("tenmat.__init__:missing-tshape", (2, 3))
def _(e):
    M = e.tenmat()
    if e.N == 2:
        return None
    return "tenmat.__init__", ttb.tenmat, (np.array(M.data), np.array(M.rindices), np.array(M.cindices)), {}, None, {}


@row("sptenmat.__init__:dims-not-a-partition", (2, 3))
def _(e):
    M = e.sptenmat()
    if M.subs.size == 0:
        return None
    return "sptenmat.__init__", ttb.sptenmat, (np.array(M.subs), np.array(M.vals), np.array([0]), np.array([0]), tuple(M.tshape)), {}, None, {}


@row("sptenmat.__init__:subscript-outside-matrix", (2, 3))
def _(e):
    M = e.sptenmat()
    subs = np.array([[M.shape[0], 0]])
    return "sptenmat.__init__", ttb.sptenmat, (subs, np.array([[1.0]]), np.array(M.rdims), np.array(M.cdims), tuple(M.tshape)), {}, None, {}


@row("sptenmat.__init__:subscript-one-past-the-end", (1, 2, 3))
def _(e):
    # boundary of the range check: the largest legal subscript + 1, in the row or in the column position, everything else legal
    M = e.sptenmat()
    which = int(e.rng.integers(0, 2))
    sub = [int(e.rng.integers(0, M.shape[0])), int(e.rng.integers(0, M.shape[1]))]
    sub[which] = int(M.shape[which])
    subs = np.array([sub])
    return "sptenmat.__init__", ttb.sptenmat, (subs, np.array([[1.0]]), np.array(M.rdims), np.array(M.cdims), tuple(M.tshape)), {}, None, {"position": ["row", "column"][which]}


@row("sumtensor.__init__:parts-of-different-shape")
def _(e):
    shp, how = other_shape(e, "size")
    return "sumtensor.__init__", ttb.sumtensor, ([e.tensor(), with_shape(e, shp).ktensor()],), {}, None, {"how": how}


for _side in ("left", "right"):
    for _okind in ("tensor", "sptensor", "ktensor", "ttensor", "list", "list-second"):
        def _mkSum(side, okind):
            @row(f"sumtensor.__add__:{okind}-of-another-shape-on-the-{side}", (2, 3))
            def _(e, side=side, okind=okind):
                # every kind of operand on either side of the sum (on the left the sum answers through its reflected addition only
                # for kinds that do not add themselves: lists and Tucker tensors)
                X = e.sumtensor()
                shp, how = other_shape(e)
                e2 = with_shape(e, shp)
                if okind == "list":
                    other = [e2.tensor()]
                elif okind == "list-second":
                    other = [e.ktensor(), e2.sptensor()]
                else:
                    other = e2.holder(okind)
                args = (X, other) if side == "right" else (other, X)
                return "sumtensor.__add__", operator.add, args, {}, X, {"how": how}
        _mkSum(_side, _okind)


@row("sumtensor.__init__:non-tensor-part")
def _(e):
    return "sumtensor.__init__", ttb.sumtensor, ([e.tensor(), e.arr()],), {}, None, {}


@row("sumtensor.__add__:shape-mismatch")
def _(e):
    X = e.sumtensor()
    shp, how = other_shape(e, "size")
    return "sumtensor.__add__", operator.add, (X, with_shape(e, shp).tensor()), {}, X, {"how": how}


# ---- H. Khatri-Rao ----------------------------------------------------------------------------------------
@row("khatrirao:column-count-mismatch", (2, 3))
def _(e):
    fm = e.factors(2)
    fm[-1] = gen.normals(e.rng, (e.shape[-1], 3))
    return "khatrirao", ttb.khatrirao, tuple(fm), {}, None, {}


@row("khatrirao:non-matrix-argument", (2,))
def _(e):
    fm = e.factors(2)
    fm[0] = fm[0][:, 0]
    return "khatrirao", ttb.khatrirao, tuple(fm), {}, None, {}


@row("khatrirao:list-argument", (2,))
def _(e):
    return "khatrirao", ttb.khatrirao, (e.factors(2),), {}, None, {}


# ---- I. documented unsupported index forms ---------------------------------------------------------------
# (no row for linear-index assignment to a sparse tensor of order >= 2: the library does not support that form today, but the
# property does not list it as ill-formed - an implementation that carries it out correctly is not a violation; see DESIGN 9.7)
@row("tensor.__setitem__:growth-by-linear-index", (2, 3))
def _(e):
    X = e.tensor()
    n = int(np.prod(e.shape))
    return "tensor.__setitem__", X.__setitem__, (np.array([n + 2]), 1.0), {}, X, {}


@row("tensor.__getitem__:linear-index-out-of-range")
def _(e):
    X = e.tensor()
    n = int(np.prod(e.shape))
    return "tensor.__getitem__", X.__getitem__, (np.array([n]),), {}, X, {}


@row("tensor.__getitem__:subscript-out-of-range")
def _(e):
    X = e.tensor()
    sub, m = one_past(e)
    return "tensor.__getitem__", X.__getitem__, (tuple(sub),), {}, X, {"last_mode": m == e.N - 1}


@row("sptensor.__setitem__:value-count-mismatch")
def _(e):
    X = e.sptensor()
    subs = np.zeros((2, e.N), dtype=int)
    subs[1, 0] = min(1, e.shape[0] - 1)
    if e.shape[0] == 1:
        return None
    return "sptensor.__setitem__", X.__setitem__, (subs, np.array([[1.0], [2.0], [3.0]])), {}, X, {}


# ---- G. algorithms ------------------------------------------------------------------------------------------
def _adata(e):
    e.shape = tuple(max(3, s) for s in e.shape)
    return ttb.tensor(np.abs(e.arr()) + 0.1)


@row("cp_als:rank-not-positive", (3,))
def _(e):
    X = _adata(e)
    return "cp_als", ttb.cp_als, (X, 0), {"printitn": 0}, X, {}


@row("cp_als:dimorder-not-a-permutation", (3,))
def _(e):
    X = _adata(e)
    return "cp_als", ttb.cp_als, (X, 2), {"printitn": 0, "dimorder": [0, 0, 1]}, X, {}


@row("cp_als:guess-wrong-rank", (3,))
def _(e):
    X = _adata(e)
    return "cp_als", ttb.cp_als, (X, 2), {"printitn": 0, "init": e.ktensor(R=3)}, X, {}


@row("cp_als:guess-wrong-shape", (3,))
def _(e):
    X = _adata(e)
    shp, _ = other_shape(e, "size")
    return "cp_als", ttb.cp_als, (X, 2), {"printitn": 0, "init": with_shape(e, shp).ktensor(R=2), "maxiters": 2}, X, {}


@row("cp_als:guess-wrong-order", (3,))
def _(e):
    X = _adata(e)
    return "cp_als", ttb.cp_als, (X, 2), {"printitn": 0, "init": with_shape(e, e.shape[:2]).ktensor(R=2)}, X, {}


@row("cp_als:unknown-init-keyword", (3,))
def _(e):
    X = _adata(e)
    return "cp_als", ttb.cp_als, (X, 2), {"printitn": 0, "init": "bogus"}, X, {}


@row("cp_apr:negative-data", (2, 3))
def _(e):
    X = ttb.tensor(-np.abs(e.arr()) - 0.1)
    return "cp_apr", ttb.cp_apr, (X, 2), {"printitn": 0}, X, {}


@row("cp_apr:negative-guess", (2, 3))
def _(e):
    X = _adata(e)
    K = e.ktensor(R=2, positive=True)
    K.factor_matrices[0][0, 0] = -0.5
    return "cp_apr", ttb.cp_apr, (X, 2), {"printitn": 0, "init": K, "maxiters": 1}, X, {}


@row("cp_apr:guess-wrong-rank", (2, 3))
def _(e):
    X = _adata(e)
    return "cp_apr", ttb.cp_apr, (X, 2), {"printitn": 0, "init": e.ktensor(R=3, positive=True), "maxiters": 1}, X, {}


@row("cp_apr:guess-wrong-shape", (2, 3))
def _(e):
    X = _adata(e)
    shp, _ = other_shape(e, "size")
    return "cp_apr", ttb.cp_apr, (X, 2), {"printitn": 0, "init": with_shape(e, shp).ktensor(R=2, positive=True), "maxiters": 1}, X, {}


@row("cp_apr:rank-not-positive", (2, 3))
def _(e):
    X = _adata(e)
    return "cp_apr", ttb.cp_apr, (X, 0), {"printitn": 0}, X, {}


@row("cp_apr:unknown-algorithm", (2,))
def _(e):
    X = _adata(e)
    return "cp_apr", ttb.cp_apr, (X, 2), {"printitn": 0, "algorithm": "bogus", "maxiters": 1}, X, {}


@row("hosvd:ranks-wrong-length", (2, 3))
def _(e):
    X = _adata(e)
    return "hosvd", ttb.hosvd, (X, 0.1), {"verbosity": 0, "ranks": [1] * (e.N + 1)}, X, {}


@row("hosvd:ranks-exceed-mode-size", (2, 3))
def _(e):
    X = _adata(e)
    r = [1] * e.N
    r[int(e.rng.integers(0, e.N))] = max(e.shape) + 2
    return "hosvd", ttb.hosvd, (X, 0.1), {"verbosity": 0, "ranks": r}, X, {}


@row("hosvd:dimorder-not-a-permutation", (2, 3))
def _(e):
    X = _adata(e)
    return "hosvd", ttb.hosvd, (X, 0.1), {"verbosity": 0, "dimorder": [0] * e.N}, X, {}


@row("tucker_als:rank-vector-wrong-length", (3,))
def _(e):
    X = _adata(e)
    return "tucker_als", ttb.tucker_als, (X, [2, 2]), {"printitn": 0, "maxiters": 1}, X, {}


@row("tucker_als:ranks-exceed-mode-size", (3,))
def _(e):
    X = _adata(e)
    r = [2] * e.N
    r[int(e.rng.integers(0, e.N))] = max(e.shape) + 2
    return "tucker_als", ttb.tucker_als, (X, r), {"printitn": 0, "maxiters": 1}, X, {}


@row("tucker_als:guess-wrong-shape", (3,))
def _(e):
    X = _adata(e)
    init = [gen.normals(e.rng, (s, 2)) for s in e.shape]
    init[1] = gen.normals(e.rng, (e.shape[1] + 1, 2))
    return "tucker_als", ttb.tucker_als, (X, 2), {"printitn": 0, "maxiters": 1, "init": init}, X, {}


@row("tucker_als:guess-wrong-length", (3,))
def _(e):
    X = _adata(e)
    init = [gen.normals(e.rng, (s, 2)) for s in e.shape][:-1]
    return "tucker_als", ttb.tucker_als, (X, 2), {"printitn": 0, "maxiters": 1, "init": init}, X, {}


@row("tucker_als:dimorder-not-a-permutation", (3,))
def _(e):
    X = _adata(e)
    return "tucker_als", ttb.tucker_als, (X, 2), {"printitn": 0, "maxiters": 1, "dimorder": [0, 0, 1]}, X, {}


# ---- negative / repeated mode arguments, and rejected calls that must leave the receiver as it was --------------------------------
@row("tensor.contract:negative-mode", (2, 3))
def _(e):
    e.shape = (3,) * e.N
    X = e.tensor()
    return "tensor.contract", X.contract, (0, -e.N), {}, X, {}      # -N is mode 0 again: the same mode twice


@row("sptensor.contract:negative-mode", (2, 3))
def _(e):
    e.shape = (3,) * e.N
    X = e.sptensor()
    return "sptensor.contract", X.contract, (0, -e.N), {}, X, {}


@row("ktensor.redistribute:negative-mode")
def _(e):
    X = e.ktensor()
    return "ktensor.redistribute", X.redistribute, (-1,), {}, X, {}


@row("ktensor.mttkrp:negative-mode", (2, 3))
def _(e):
    X = e.ktensor()
    return "ktensor.mttkrp", X.mttkrp, (e.factors(2), -1), {}, X, {}


@row("tensor.mttkrp:negative-mode", (2, 3))
def _(e):
    X = e.tensor()
    return "tensor.mttkrp", X.mttkrp, (e.factors(2), -1), {}, X, {}


@row("sptensor.mttkrp:negative-mode", (2, 3))
def _(e):
    X = e.sptensor()
    return "sptensor.mttkrp", X.mttkrp, (e.factors(2), -1), {}, X, {}


@row("ktensor.update:negative-mode-other-than-weights", (2, 3))
def _(e):
    X = e.ktensor(R=2)
    return "ktensor.update", X.update, ([-2], gen.normals(e.rng, (2 * e.shape[-2],))), {}, X, {}


@row("ktensor.arrange:permutation-with-repeats", (2, 3))
def _(e):
    X = e.ktensor(R=2)
    return "ktensor.arrange", X.arrange, (), {"permutation": np.array([0, 0])}, X, {}


@row("sptensor.reshape:negative-old-mode", (2, 3))
def _(e):
    X = e.sptensor()
    return "sptensor.reshape", X.reshape, ((e.shape[-1],), np.array([-1])), {}, X, {}


@row("sptensor.reshape:repeated-old-mode", (2, 3))
def _(e):
    X = e.sptensor()
    return "sptensor.reshape", X.reshape, ((e.shape[1] * e.shape[1],), np.array([1, 1])), {}, X, {}


@row("tt_dimscheck:repeated-exclude-dims", (2, 3))
def _(e):
    return "tt_dimscheck", ttb.pyttb_utils.tt_dimscheck, (e.N,), {"exclude_dims": np.array([0, 0])}, None, {}


@row("hosvd:negative-rank", (2, 3))
def _(e):
    X = _adata(e)
    r = [1] * e.N
    r[int(e.rng.integers(0, e.N))] = -1
    return "hosvd", ttb.hosvd, (X, 0.1), {"verbosity": 0, "ranks": r}, X, {}


@row("tensor.to_tenmat:unknown-cyclic-option", (3,))
def _(e):
    X = e.tensor()
    return "tensor.to_tenmat", X.to_tenmat, (np.array([0]),), {"cdims_cyclic": "xx"}, X, {}


@row("ktensor.update:invalid-mode-after-a-valid-one", (2, 3))
def _(e):
    X = e.ktensor(R=2)
    data = gen.normals(e.rng, (2 * e.shape[0] + 2 * 3,))
    return "ktensor.update", X.update, ([0, e.N + 2], data), {}, X, {}


@row("ktensor.fixsigns:reference-of-another-shape", (2, 3))
def _(e):
    X = e.ktensor(R=2)
    shp, how = other_shape(e, "size")
    return "ktensor.fixsigns", X.fixsigns, (with_shape(e, shp).ktensor(R=2),), {}, X, {"how": how}


@row("ktensor.arrange:weight-factor-out-of-range", (2, 3))
def _(e):
    X = e.ktensor(R=2)
    return "ktensor.arrange", X.arrange, (), {"weight_factor": e.N + 4}, X, {}


@row("sptensor.__setitem__:subscript-array-of-another-order-with-wrong-value-count", (2, 3))
def _(e):
    X = e.sptensor()
    subs = np.array([[0] * e.N + [1]])
    return "sptensor.__setitem__", X.__setitem__, (subs, np.array([[1.0], [2.0]])), {}, X, {}


@row("sptensor.__setitem__:region-past-the-extent-with-unsupported-value", (2, 3))
def _(e):
    X = e.sptensor()
    key = tuple(slice(0, s_ + 2) for s_ in e.shape)
    return "sptensor.__setitem__", X.__setitem__, (key, "x"), {}, X, {}


@row("tensor.__setitem__:region-past-the-extent-with-wrong-size-value", (2, 3))
def _(e):
    X = e.tensor()
    key = tuple(slice(0, s_ + 1) for s_ in e.shape)
    return "tensor.__setitem__", X.__setitem__, (key, np.ones(tuple(s_ + 3 for s_ in e.shape))), {}, X, {}


def _order_rows():
    # every way a mode order can fail to be a permutation of the modes, for every algorithm that takes one, as list and as array
    kinds = {
        "repeat-within-N": lambda N, rng: [0] + list(range(N - 1)),
        "too-short": lambda N, rng: list(range(N - 1)),
        "longer-with-every-mode": lambda N, rng: list(range(N)) + [int(rng.integers(0, N))],
        "twice-every-mode": lambda N, rng: list(range(N)) * 2,
        "out-of-range": lambda N, rng: list(range(N - 1)) + [N],
        "negative-entry": lambda N, rng: [-1] + list(range(1, N)),
        "empty": lambda N, rng: [],
    }
    algs = {"cp_als": lambda X: (ttb.cp_als, (X, 2), {"printitn": 0, "maxiters": 2}),
            "tucker_als": lambda X: (ttb.tucker_als, (X, 2), {"printitn": 0, "maxiters": 1}),
            "hosvd": lambda X: (ttb.hosvd, (X, 0.1), {"verbosity": 0})}
    for alg, mk in algs.items():
        for kname, kf in kinds.items():
            def make(e, mk=mk, kf=kf, alg=alg):
                X = _adata(e)
                fn, args, kw = mk(X)
                order = kf(e.N, e.rng)
                kw = dict(kw, dimorder=(order if e.rng.random() < 0.5 else np.array(order, dtype=int)))
                return alg, fn, args, kw, X, {}
            ROWS[f"{alg}:dimorder-{kname}"] = {"make": make, "orders": (3,)}

    # a starting guess whose factor for one mode has the wrong number of rows or of columns -- for every mode, under every mode order
    for m_ in range(3):
        for what_ in (0, 1):
            def guess_row(e, m=m_, what=what_):
                X = _adata(e)
                init = [gen.normals(e.rng, (s_, 2)) for s_ in e.shape]
                init[m] = gen.normals(e.rng, (e.shape[m] + 1, 2) if what == 0 else (e.shape[m], 3))
                order = [int(x) for x in e.rng.permutation(e.N)]
                return "tucker_als", ttb.tucker_als, (X, 2), {"printitn": 0, "maxiters": 1, "init": init, "dimorder": order}, X, \
                    {"bad_mode_first_in_order": order[0] == m, "what": ["rows", "columns"][what], "bad_mode": m}
            ROWS[f"tucker_als:guess-factor-of-mode-{m_}-wrong-{['rows', 'columns'][what_]}(any order)"] = {"make": guess_row, "orders": (3,)}


_order_rows()


@row("cp_als:optdims-outside-the-modes", (3,))
def _(e):
    X = _adata(e)
    od = [[0, e.N + int(e.rng.integers(0, 3))], [0, -1], [], [-2]][int(e.rng.integers(0, 4))]
    return "cp_als", ttb.cp_als, (X, 2), {"printitn": 0, "maxiters": 1, "optdims": od if e.rng.random() < 0.5 else np.array(od, dtype=int)}, X, \
        {"optdims": "empty" if not od else "negative" if min(od) < 0 else "too-large"}


@row("tucker_als:rank-vector-too-long", (3,))
def _(e):
    X = _adata(e)
    return "tucker_als", ttb.tucker_als, (X, [2] * (e.N + int(e.rng.integers(1, 3)))), {"printitn": 0, "maxiters": 1}, X, {}


for _k in KINDS5:
    def _mkX(k):
        @row(f"{k}.mttkrp:factor-with-surplus-columns", (3,))
        def _r(e, k=k):
            # one factor (not the skipped one) has more columns than the others
            X = e.holder(k)
            U = e.factors(2)
            n = int(e.rng.integers(0, e.N))
            m = [i for i in range(e.N) if i != n][int(e.rng.integers(0, e.N - 1))]
            U[m] = gen.normals(e.rng, (e.shape[m], 3))
            return f"{k}.mttkrp", X.mttkrp, (U, n), {}, X, {"widened_is_first_other": m == [i for i in range(e.N) if i != n][0]}

        if k in ("ktensor", "sptensor", "tensor"):
            @row(f"{k}.mttkrp:single-column-factor-among-wider-ones", (3,))
            def _r2(e, k=k):
                X = e.holder(k)
                U = e.factors(2)
                n = int(e.rng.integers(0, e.N))
                m = [i for i in range(e.N) if i != n][int(e.rng.integers(0, e.N - 1))]
                U[m] = gen.normals(e.rng, (e.shape[m], 1))
                return f"{k}.mttkrp", X.mttkrp, (U, n), {}, X, {}
    _mkX(_k)


@row("tensor.mttkrps:row-counts-swapped-or-list-length", (3,))
def _(e):
    e.shape = (3, 4, 5)[: e.N] if e.N == 3 else e.shape
    X = e.holder("tensor")
    U = e.factors(2)
    c = int(e.rng.integers(0, 3))
    if c == 0:
        U[1], U[2] = U[2], U[1]                       # rows 3, 5, 4 for a 3 x 4 x 5 tensor: same product
    elif c == 1:
        U = U[:-1]
    else:
        U = U + [gen.normals(e.rng, (2, 2))]
    return "tensor.mttkrps", X.mttkrps, (U,), {}, X, {"how": ["swapped", "short", "long"][c]}


@row("sptensor.scale:array-factor-of-another-shape", (2, 3))
def _(e):
    X = e.holder("sptensor")
    d = int(e.rng.integers(0, e.N))
    c = int(e.rng.integers(0, 3))
    f = [gen.normals(e.rng, (e.shape[d], 2)), gen.normals(e.rng, (e.shape[d], 1)), gen.normals(e.rng, (1, e.shape[d]))][c]
    return "sptensor.scale", X.scale, (f, np.array([d])), {}, X, {"factor": ["two-columns", "column", "row"][c]}


@row("ttensor.reconstruct:mode-negative-or-repeated", (2, 3))
def _(e):
    X = e.holder("ttensor")
    c = int(e.rng.integers(0, 3))
    if c == 0:
        return "ttensor.reconstruct", X.reconstruct, (np.array([0]), -1), {}, X, {"how": "negative"}
    if c == 1:
        return "ttensor.reconstruct", X.reconstruct, ([np.array([0]), np.array([0])], [0, 0]), {}, X, {"how": "repeated"}
    return "ttensor.reconstruct", X.reconstruct, (np.array([0]), e.N), {}, X, {"how": "too-large"}


@row("sptensor.__init__:value-count-differs-or-negative-subscript")
def _(e):
    subs = np.array([[int(e.rng.integers(0, s_)) for s_ in e.shape] for _ in range(2)])
    subs[1] = (subs[0] + 1) % np.array(e.shape)
    c = int(e.rng.integers(0, 3))
    if c == 0:
        return "sptensor.__init__", ttb.sptensor, (subs, np.array([[1.0], [2.0], [3.0]]), e.shape), {}, None, {"how": "more-values"}
    if c == 1:
        return "sptensor.__init__", ttb.sptensor, (subs, np.array([[1.0]]), e.shape), {}, None, {"how": "fewer-values"}
    subs[0, int(e.rng.integers(0, e.N))] = -1
    return "sptensor.__init__", ttb.sptensor, (subs, np.array([[1.0], [2.0]]), e.shape), {}, None, {"how": "negative-subscript"}


@row("sptensor.__init__:values-not-a-column", (2, 3))
def _(e):
    # several stored entries with their values as a 1-D vector (or a row): every operation reads the values as a column
    e.shape = tuple(max(2, s_) for s_ in e.shape)
    subs = np.array([[0] * e.N, [1] * e.N, [1] + [0] * (e.N - 1)])
    vals = np.array([1.0, 2.0, 3.0])
    return "sptensor.__init__", ttb.sptensor, (subs, vals if e.rng.random() < 0.6 else vals[None, :]), {"shape": e.shape}, None, {}


@row("ktensor.update:repeated-mode", (2, 3))
def _(e):
    X = e.holder("ktensor")
    R = X.ncomponents
    m = int(e.rng.integers(0, e.N))
    return "ktensor.update", X.update, ([m, m], gen.normals(e.rng, (2 * e.shape[m] * R,))), {}, X, {}


@row("tensor.__setitem__:subscripts-past-the-extent-with-a-wrong-number-of-values", (2, 3))
def _(e):
    # the assignment would enlarge the tensor; the value count is wrong, so nothing may change
    X = e.holder("tensor")
    subs = np.array([[s_ + 1 for s_ in e.shape], [0] * e.N])
    return "tensor.__setitem__", X.__setitem__, (subs, [1.0, 2.0, 3.0]), {}, X, {}


for _cls in ("tensor", "sptensor"):
    def _mkDown(cls):
        @row(f"{cls}.__setitem__:downward-slice-in-a-mode-the-tensor-does-not-have", (1, 2, 3))
        def _(e, cls=cls):
            # a new trailing mode is sized by the slice that names it; a downward slice names no extent
            X = e.holder(cls)
            a = int(e.rng.integers(1, 4))
            # (with an explicit stop: an open one reads the absent mode as a mode of size 1 in the dense class)
            sl = [slice(a, 0, -1), slice(a, 0, -2)][int(e.rng.integers(0, 2))]
            key = tuple([0] * e.N + [sl])
            return f"{cls}.__setitem__", X.__setitem__, (key, 5.0), {}, X, {}
    _mkDown(_cls)


@row("sptensor.__setitem__:sparse-rhs-with-more-or-fewer-modes-than-the-key-has-ranges", (2, 3))
def _(e):
    # one slice (the other modes fixed by integers) but a two-way right-hand side; or two slices and a one-way right-hand side; the
    # target may lie past the extent (the write would grow the tensor)
    X = e.holder("sptensor")
    c = int(e.rng.integers(0, 3))
    grow = int(e.rng.integers(0, 2))
    if c < 2:
        key = tuple([slice(0, 2)] + [int(s_ - 1 + 3 * grow) for s_ in e.shape[1:]])
        R = ttb.sptensor(np.array([[0, 0], [1, 1]]), np.array([[1.0], [2.0]]), (2, 2 + c))
    else:
        key = tuple([slice(0, 2), slice(0, 2)] + [int(s_ - 1 + 3 * grow) for s_ in e.shape[2:]])
        R = ttb.sptensor(np.array([[0], [1]]), np.array([[1.0], [2.0]]), (2,))
    return "sptensor.__setitem__", X.__setitem__, (key, R), {}, X, {"grows": bool(grow)}


@row("tensor.__setitem__:subscripts-past-the-extent-with-a-wrong-number-of-values-as-a-matrix", (2, 3))
def _(e):
    X = e.holder("tensor")
    subs = np.array([[s_ + 1 for s_ in e.shape], [0] * e.N, [1] * e.N])
    vals = [np.ones((2, 2)), np.ones((2, 1)), np.ones((1, 4))][int(e.rng.integers(0, 3))]
    return "tensor.__setitem__", X.__setitem__, (subs, vals), {}, X, {}


@row("sptensor.__setitem__:sparse-rhs-does-not-fit-the-slice", (2, 3))
def _(e):
    # a slice that names fewer (or more) positions than the sparse right-hand side has in that mode
    e.shape = tuple(max(3, s_) for s_ in e.shape)
    X = e.holder("sptensor")
    d = int(e.rng.integers(0, e.N))
    c = int(e.rng.integers(0, 3))
    rshape = list(e.shape)
    if c == 0:
        key = tuple(slice(1, None) if n == d else slice(None) for n in range(e.N))           # names shape-1 positions, rhs has shape
    elif c == 1:
        key = tuple(slice(0, e.shape[n] - 1) if n == d else slice(None) for n in range(e.N))  # one short
    else:
        key = tuple(slice(None, None, 2) if n == d else slice(None) for n in range(e.N))      # every other position
    R = with_shape(e, tuple(rshape)).holder("sptensor")
    if R.nnz == 0:
        R[tuple(s_ - 1 for s_ in rshape)] = 2.0
    return "sptensor.__setitem__", X.__setitem__, (key, R), {}, X, {"how": ["open-start", "short-stop", "strided"][c]}


@row("tensor.collapse:every-mode-and-one-outside", (2, 3))
def _(e):
    X = e.holder("tensor")
    return "tensor.collapse", X.collapse, (np.array(list(range(e.N)) + [e.N + int(e.rng.integers(0, 3))]),), {}, X, {}


for _k in ("ktensor", "tensor", "sptensor", "ttensor"):
    def _mkN(k):
        @row(f"{k}.nvecs:mode-negative-or-too-large", (2, 3))
        def _(e, k=k):
            X = e.holder(k)
            n = -int(e.rng.integers(1, e.N + 1)) if e.rng.random() < 0.6 else e.N + int(e.rng.integers(0, 2))
            return f"{k}.nvecs", X.nvecs, (n, 1), {}, X, {"how": "negative" if n < 0 else "too-large"}
    _mkN(_k)


@row("sptenmat.__setitem__:wrong-number-of-values", (2, 3))
def _(e):
    # several positions, some of them stored already; fewer or more values than positions
    S = e.holder("sptensor")
    M = S.to_sptenmat(np.array([0]))
    r_, c_ = M.shape
    rows = list(range(min(2, r_)))
    cols = list(range(min(2, c_)))
    n = len(rows) * len(cols)
    k = [max(1, n - 1) if n > 1 else 2, n + 1, n + 3][int(e.rng.integers(0, 3))]
    vals = np.arange(1.0, k + 1.0) + 6.0
    if int(e.rng.integers(0, 2)):
        vals = vals.reshape(-1, 1)
    return "sptenmat.__setitem__", M.__setitem__, ((rows, cols), vals), {}, M, {"values": "fewer" if k < n else "more"}


@row("sptenmat.__setitem__:position-outside-the-matrix", (2, 3))
def _(e):
    S = e.holder("sptensor")
    M = S.to_sptenmat(np.array([0]))
    r_, c_ = M.shape
    key = [(r_ + int(e.rng.integers(0, 3)), 0), (0, c_ + int(e.rng.integers(0, 3))), (-r_ - 1, 0), ([0, r_], 0)][int(e.rng.integers(0, 4))]
    return "sptenmat.__setitem__", M.__setitem__, (key, 2.0), {}, M, {}


for _op in ("symmetrize", "issymmetric"):
    def _mkY(op):
        @row(f"tensor.{op}:group-with-negative-repeated-or-outside-mode", (2, 3))
        def _(e, op=op):
            e.shape = (2,) * e.N
            X = e.holder("tensor")
            c = int(e.rng.integers(0, 3))
            g = [np.array([0, -1]), np.array([0, 0]), np.array([0, e.N])][c]
            return f"tensor.{op}", getattr(X, op), (g,), {}, X, {"how": ["negative", "repeated", "outside"][c]}
    _mkY(_op)


@row("tucker_als:negative-maxiters", (3,))
def _(e):
    X = _adata(e)
    return "tucker_als", ttb.tucker_als, (X, 2), {"printitn": 0, "maxiters": -1}, X, {}


@row("gcp_opt:sparse-data-with-lbfgsb", (2, 3))
def _(e):
    from pyttb.gcp.handles import Objectives
    from pyttb.gcp.optimizers import LBFGSB

    X = e.sptensor()
    return "gcp_opt", ttb.gcp_opt, (X, 2, Objectives.GAUSSIAN, LBFGSB(maxiter=1)), {"printitn": 0}, X, {}


@row("gcp_opt:mask-with-sparse-data", (2, 3))
def _(e):
    from pyttb.gcp.handles import Objectives
    from pyttb.gcp.optimizers import SGD

    X = e.sptensor()
    return "gcp_opt", ttb.gcp_opt, (X, 2, Objectives.GAUSSIAN, SGD(max_iters=1, epoch_iters=1, printitn=0)), {"printitn": 0, "mask": ttb.tensor(np.ones(e.shape))}, X, {}


@row("gcp_opt:mask-with-stochastic-solver", (2, 3))
def _(e):
    from pyttb.gcp.handles import Objectives
    from pyttb.gcp.optimizers import SGD

    X = e.tensor()
    return "gcp_opt", ttb.gcp_opt, (X, 2, Objectives.GAUSSIAN, SGD(max_iters=1, epoch_iters=1, printitn=0)), {"printitn": 0, "mask": ttb.tensor(np.ones(e.shape))}, X, {}


for _form in ("ktensor", "list"):
    for _what in ("components", "rows", "modes"):
        def _mkG(form, what):
            @row(f"gcp_opt:guess-({form})-with-other-{what}", (2, 3))
            def _(e, form=form, what=what):
                from pyttb.gcp.handles import Objectives
                from pyttb.gcp.optimizers import LBFGSB, SGD

                X = _adata(e)
                shp = list(e.shape)
                R = 2
                if what == "components":
                    Rg = [1, 3][int(e.rng.integers(0, 2))]
                else:
                    Rg = R
                    if what == "rows":
                        shp[int(e.rng.integers(0, e.N))] += 1
                    else:
                        shp = shp[:-1] if (e.N > 2 and int(e.rng.integers(0, 2))) else shp + [2]
                fm = [np.abs(e.rng.standard_normal((s_, Rg))) + 0.1 for s_ in shp]
                guess = ttb.ktensor([f.copy() for f in fm]) if form == "ktensor" else [f.copy() for f in fm]
                opt = LBFGSB(maxiter=1) if int(e.rng.integers(0, 2)) else SGD(max_iters=1, epoch_iters=1, printitn=0)
                return "gcp_opt", ttb.gcp_opt, (X, R, Objectives.GAUSSIAN, opt), {"printitn": 0, "init": guess}, X, {}
        _mkG(_form, _what)


@row("gcp_opt:unsupported-optimizer", (2,))
def _(e):
    from pyttb.gcp.handles import Objectives

    X = e.tensor()
    return "gcp_opt", ttb.gcp_opt, (X, 2, Objectives.GAUSSIAN, "adam"), {"printitn": 0}, X, {}


@row("gcp_opt:objective-tuple-wrong-length", (2,))
def _(e):
    from pyttb.gcp.optimizers import LBFGSB

    X = e.tensor()
    return "gcp_opt", ttb.gcp_opt, (X, 2, (lambda x, m: m, lambda x, m: m), LBFGSB(maxiter=1)), {"printitn": 0}, X, {}


@row("gcp_opt:non-tensor-data", (2,))
def _(e):
    from pyttb.gcp.handles import Objectives
    from pyttb.gcp.optimizers import LBFGSB

    return "gcp_opt", ttb.gcp_opt, (e.ktensor(), 2, Objectives.GAUSSIAN, LBFGSB(maxiter=1)), {"printitn": 0}, None, {}


@row("gcp.setup:count-objective-on-non-integer-data", (2,))
def _(e):
    from pyttb.gcp.fg_setup import setup
    from pyttb.gcp.handles import Objectives

    return "gcp.setup", setup, (Objectives.POISSON, ttb.tensor(np.abs(e.arr()) + 0.25)), {}, None, {}


@row("gcp.setup:binary-objective-on-non-binary-data", (2,))
def _(e):
    from pyttb.gcp.fg_setup import setup
    from pyttb.gcp.handles import Objectives

    return "gcp.setup", setup, (Objectives.BERNOULLI_ODDS, ttb.tensor(np.abs(e.arr()) + 2.0)), {}, None, {}


@row("gcp.setup:missing-additional-parameter", (2,))
def _(e):
    from pyttb.gcp.fg_setup import setup
    from pyttb.gcp.handles import Objectives

    return "gcp.setup", setup, ([Objectives.HUBER, Objectives.BETA, Objectives.NEGATIVE_BINOMIAL][int(e.rng.integers(0, 3))], ttb.tensor(np.abs(e.arr()) + 1.0)), {}, None, {}


@row("gcp.sampler:stratified-on-dense-data", (2,))
def _(e):
    from pyttb.gcp import samplers as SAM

    X = e.tensor()
    return "GCPSampler", SAM.GCPSampler, (X, SAM.Samplers.STRATIFIED), {}, X, {}


def _tmpfile(text):
    d = tempfile.mkdtemp(prefix="pvm_c19_")
    p = os.path.join(d, "f.tns")
    with open(p, "w") as f:
        f.write(text)
    return p


@row("import_data:missing-file", (1,))
def _(e):
    return "import_data", ttb.import_data, ("/nonexistent/pvm/file.tns",), {}, None, {}


@row("import_data:unknown-type-header", (1,))
def _(e):
    return "import_data", ttb.import_data, (_tmpfile("tensorr\n1\n2\n1.0\n2.0\n"),), {}, None, {"cleanup": True}


@row("import_data:dimension-count-mismatch", (1,))
def _(e):
    return "import_data", ttb.import_data, (_tmpfile("tensor\n3\n2 2\n1.0\n2.0\n3.0\n4.0\n"),), {}, None, {"cleanup": True}


@row("export_data:unsupported-type", (2,))
def _(e):
    return "export_data", ttb.export_data, (e.ttensor(), os.path.join(tempfile.gettempdir(), "pvm_c19_never_written.tns")), {}, None, {}


@row("teneye:odd-order", (1,))
def _(e):
    return "teneye", ttb.teneye, (3, 2), {}, None, {}


@row("sptenrand:density-and-nonzeros", (2,))
def _(e):
    return "sptenrand", ttb.sptenrand, (e.shape,), {"density": 0.5, "nonzeros": 2}, None, {}


@row("sptenrand:neither-density-nor-nonzeros", (2,))
def _(e):
    return "sptenrand", ttb.sptenrand, (e.shape,), {}, None, {}


@row("sptenrand:density-out-of-range", (2,))
def _(e):
    return "sptenrand", ttb.sptenrand, (e.shape,), {"density": [1.5, -0.1][int(e.rng.integers(0, 2))]}, None, {}


# every constructor row once more with copying switched off: the no-copy path stores the caller's components, it does not excuse them
# from the consistency checks
def _nocopy(make):
    def make2(e):
        made = make(e)
        if made is None:
            return None
        op, fn, args, kw, recv, feats = made
        return op, fn, args, dict(kw, copy=False), recv, dict(feats, nocopy=True)
    return make2


for _name in [n_ for n_ in list(ROWS) if ".__init__:" in n_ and n_.split(".")[0] in ("tensor", "sptensor", "ktensor", "ttensor", "tenmat", "sptenmat", "sumtensor")]:
    ROWS[_name + "(copy=False)"] = {"make": _nocopy(ROWS[_name]["make"]), "orders": ROWS[_name]["orders"]}


# ------------------------------------------------------------------ execution ------------------------
def run_case(case, ctx):
    import contextlib
    import io
    import shutil

    e = Env(np.random.default_rng(case["cseed"]), case["N"])
    e.fill = case.get("fill", "some")
    r_ = ROWS[case["row"]]
    made = r_["make"](e)
    if made is None:
        return
    op, fn, args, kw, recv, feats = made
    ctx.feat(row=case["row"], N=case["N"], fill=e.fill, **{k: v for k, v in feats.items() if k != "cleanup"})
    before = None if recv is None else state_digest(recv)
    argdig = [state_digest(a) for a in args if type(a).__name__ in ("tensor", "sptensor", "ktensor", "ttensor", "sumtensor", "tenmat", "sptenmat")]
    with contextlib.redirect_stdout(io.StringIO()):
        r = ctx.call(op, fn, *args, **kw)
    ctx.evals += 1
    if r.ok:
        from ..core import short

        try:
            shown = short(r.value, 160)
        except Exception as ex_:  # noqa: BLE001  (an inconsistent object may not even print)
            shown = f"<{type(r.value).__name__} whose repr raises {type(ex_).__name__}>"
        ctx.fail(op, "ACCEPTED", f"row '{case['row']}': the call returned {shown} instead of raising (shape {e.shape})")
    else:
        ctx.tag("raised:" + type(r.exc).__name__)
    if recv is not None:
        ctx.check(state_digest(recv) == before, op, "MUTATED-BY-REJECTED-CALL", f"row '{case['row']}': receiver changed although the call {'returned' if r.ok else 'raised'}",
                  raised=not r.ok)
    after = [state_digest(a) for a in args if type(a).__name__ in ("tensor", "sptensor", "ktensor", "ttensor", "sumtensor", "tenmat", "sptenmat")]
    ctx.check(after == argdig, op, "MUTATED-BY-REJECTED-CALL", f"row '{case['row']}': an operand changed", raised=not r.ok, who="arg")
    if feats.get("cleanup"):
        shutil.rmtree(os.path.dirname(args[0]), ignore_errors=True)
