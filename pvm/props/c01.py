"""C01 -- converting between representations preserves the tensor."""
import itertools

import numpy as np

from .. import load
from .. import gen
from ..denote import denote, denote_matrix, reference_matricize, same, close, sparse_nnz

np_, ttb = load()
ID = "C01"
RULE = ("case = (workload, shape, values, sparsity pattern none/one/some/all, stored order, mode partition or "
        "cyclic form | Kruskal/Tucker/sum parts); exhaustive over shapes and ordered partitions below the bound, "
        "seeded beyond; non-trivial = tensor has >= 2 cells; distinct = canonical hash of the serialised case")
ANCHORS = [
    "tensor:tensor.find", "tensor:tensor.to_sptensor", "sptensor:sptensor.full", "sptensor:sptensor.double",
    "ktensor:ktensor.full", "ttensor:ttensor.full", "sumtensor:sumtensor.full", "tensor:tensor.to_tenmat",
    "tenmat:tenmat.to_tensor", "sptensor:sptensor.to_sptenmat", "sptenmat:sptenmat.to_sptensor",
    "sptenmat:sptenmat.full", "sptenmat:sptenmat.from_array", "ktensor:ktensor.to_tenmat",
    "pyttb_utils:gather_wrap_dims", "tenmat:tenmat.ctranspose", "sptensor:sptensor.spmatrix",
]
EXHAUSTIVE = {
    "quick": {"shapes N<=3 sizes{1,2,3} x all ordered (rows,cols) partitions": "complete",
              "single-mode fc/bc/t conventions for every n": "complete"},
    "thorough": {"shapes N<=3 sizes{1,2,3} x all ordered partitions x 4 sparsity patterns x 2 stored orders": "complete",
                 "N=4 shapes sizes{1,2,3}: all 120 ordered partitions": "complete (shapes sampled)"},
}
NPINT_ARGS = True     # a quarter of the cases pass their integer arguments as NumPy integers (core.Ctx.begin)
STRIDED_ARGS = True   # a quarter of the cases pass every array argument as a strided, non-contiguous view (core.Ctx.begin)
SEQ_ARGS = True       # a quarter of the cases pass short integer arrays (mode lists, permutations) as plain lists / tuples (core.Ctx.begin)
MUTSAN = "full"        # operand digests + result-vs-operand aliasing on every depth-0 call (pvm/mutsan.py)
WATCHDOG = {"quick": 600, "thorough": 3000}
PATTERNS = ["none", "one", "some", "all"]


def nontrivial(case):
    return int(np.prod(case.get("shape", [1]))) >= 2


def _vals(rng, shape, kind):
    if kind == "ramp":
        return gen.ramp(shape, rng)
    if kind == "int":
        return rng.integers(-5, 6, size=shape).astype(np.int64)
    if kind == "bool":
        return rng.integers(0, 2, size=shape).astype(bool)
    return gen.normals(rng, shape)


def _gen_cases(tier, seed):
    rng = gen.rng_for(seed, ID, tier)
    small = gen.all_shapes(3, (1, 2, 3))
    # --- dense <-> sparse --------------------------------------------------------------
    shapes = small + [gen.rand_shape(rng, 4, 1, 3) for _ in range(6 if tier == "quick" else 40)]
    shapes += [gen.rand_shape(rng, 5, 1, 3) for _ in range(2 if tier == "quick" else 15)]
    for shp in shapes:
        for pat in PATTERNS:
            for order in (["sorted", "shuffled"] if pat in ("some", "all") else ["sorted"]):
                for vk in (["ramp"] if tier == "quick" else ["ramp", "normal"]):
                    A = gen.sparsify(rng, _vals(rng, shp, vk), pat)
                    nnz = int(np.count_nonzero(A))
                    yield {"w": "dense_sparse", "shape": list(shp), "A": A.tolist(), "pattern": pat,
                           "order": gen.stored_order(rng, nnz, order), "ordk": order}
    for shp in gen.take(rng, small, 12 if tier == "quick" else 39):
        for vk in ("int", "bool"):
            A = _vals(rng, shp, vk)
            yield {"w": "dense_sparse", "shape": list(shp), "A": A.tolist(), "pattern": "dtype", "dtype": vk,
                   "order": gen.stored_order(rng, int(np.count_nonzero(A)), "shuffled"), "ordk": "shuffled"}
    # --- matricization: every ordered partition --------------------------------------------
    pshapes = list(small)
    n4 = [gen.rand_shape(rng, 4, 1, 3) for _ in range(1 if tier == "quick" else 12)]
    for shp in pshapes + n4:
        N = len(shp)
        parts = gen.ordered_partitions(N)
        if N == 4 and tier == "quick":
            parts = gen.take(rng, parts, 30)
        pats = PATTERNS if tier == "thorough" else None
        for (r, c) in parts:
            for pat in (pats or [PATTERNS[int(rng.integers(0, 4))]]):
                A = gen.sparsify(rng, gen.ramp(shp, rng), pat)
                nnz = int(np.count_nonzero(A))
                okinds = ["sorted", "shuffled"] if (tier == "thorough" and nnz > 1) else ["shuffled"]
                for ok in okinds:
                    yield {"w": "matricize", "shape": list(shp), "A": A.tolist(), "pattern": pat, "form": "both",
                           "rdims": r, "cdims": c, "order": gen.stored_order(rng, nnz, ok), "ordk": ok}
        # only-rdims / only-cdims call forms and the cyclic conventions
        for k in range(0, N + 1):
            for sub in itertools.combinations(range(N), k):
                sub = list(sub)
                if len(sub) > 1 and rng.random() < 0.5:
                    sub = [int(x) for x in rng.permutation(sub)]
                pat = PATTERNS[int(rng.integers(0, 4))]
                A = gen.sparsify(rng, gen.ramp(shp, rng), pat)
                nnz = int(np.count_nonzero(A))
                rest = [m for m in range(N) if m not in sub]
                yield {"w": "matricize", "shape": list(shp), "A": A.tolist(), "pattern": pat, "form": "rdims",
                       "rdims": sub, "cdims": rest, "order": gen.stored_order(rng, nnz, "shuffled"), "ordk": "shuffled"}
                yield {"w": "matricize", "shape": list(shp), "A": A.tolist(), "pattern": pat, "form": "cdims",
                       "rdims": rest, "cdims": sub, "order": gen.stored_order(rng, nnz, "shuffled"), "ordk": "shuffled"}
        for n in range(N):
            for form in ("fc", "bc", "t"):
                pat = PATTERNS[int(rng.integers(0, 4))]
                A = gen.sparsify(rng, gen.ramp(shp, rng), pat)
                nnz = int(np.count_nonzero(A))
                if form == "fc":
                    r, c = [n], list(range(n + 1, N)) + list(range(n))
                elif form == "bc":
                    r, c = [n], list(range(n - 1, -1, -1)) + list(range(N - 1, n, -1))
                else:
                    r, c = [m for m in range(N) if m != n], [n]
                yield {"w": "matricize", "shape": list(shp), "A": A.tolist(), "pattern": pat, "form": form, "n": n,
                       "rdims": r, "cdims": c, "order": gen.stored_order(rng, nnz, "shuffled"), "ordk": "shuffled"}
    # --- structured holders -> dense -------------------------------------------------------
    nstruct = 60 if tier == "quick" else 500
    for i in range(nstruct):
        N = int(rng.integers(1, 5))
        shp = gen.rand_shape(rng, N, 1, 4)
        R = int(rng.integers(1, 4))
        w, fm = gen.rand_ktensor_parts(rng, shp, R)
        ranks = [int(rng.integers(1, 4)) for _ in shp]
        core, tf = gen.rand_ttensor_parts(rng, shp, ranks)
        r, c = gen.ordered_partitions(N)[int(rng.integers(0, len(gen.ordered_partitions(N))))]
        yield {"w": "structured", "shape": list(shp), "R": R, "weights": w.tolist(), "factors": [f.tolist() for f in fm],
               "core": core.tolist(), "tfactors": [f.tolist() for f in tf], "sparse_core": bool(i % 3 == 0),
               "dense": gen.normals(rng, shp).tolist(),
               "sparse": gen.sparsify(rng, gen.normals(rng, shp), "some").tolist(),
               "parts": ([["tensor", "sptensor", "ktensor", "ttensor"][int(x)] for x in rng.integers(0, 4, size=2)] if i % 4 else
                         # every kind of part after a dense first part, and longer sums
                         [["tensor", "sptensor"], ["tensor", "tensor", "sptensor", "ttensor"], ["tensor", "ktensor", "sptensor"], ["sptensor", "tensor"]][(i // 4) % 4]),
               "rdims": r, "cdims": c}
    # Tucker tensors with a sparse core under every pattern of factor aspects (fewer rows than columns: the core is larger than the
    # tensor in that mode; square and not the identity; more rows than columns), three-way
    for pat3 in itertools.product(("wide", "square", "tall"), repeat=3):
        csz = [int(rng.integers(2, 4)) for _ in range(3)]
        shp = tuple({"wide": c - 1, "square": c, "tall": c + 1}[a] for a, c in zip(pat3, csz))
        core = gen.sparsify(rng, gen.normals(rng, tuple(csz)), "some")
        tf = [gen.normals(rng, (s_, c_)) for s_, c_ in zip(shp, csz)]
        w, fm = gen.rand_ktensor_parts(rng, shp, 2)
        yield {"w": "structured", "shape": list(shp), "R": 2, "weights": w.tolist(), "factors": [f.tolist() for f in fm], "core": core.tolist(),
               "tfactors": [f.tolist() for f in tf], "sparse_core": True, "dense": gen.normals(rng, shp).tolist(),
               "sparse": gen.sparsify(rng, gen.normals(rng, shp), "some").tolist(), "parts": ["ttensor", "tensor"], "rdims": [0], "cdims": [1, 2],
               "aspects": "/".join(pat3)}
    # 1-way and rank-1 corners, always present
    for shp in [(1,), (2,), (4,), (1, 1), (3, 1), (1, 2, 1)]:
        for R in (1, 2):
            w, fm = gen.rand_ktensor_parts(rng, shp, R)
            core, tf = gen.rand_ttensor_parts(rng, shp, [1] * len(shp))
            yield {"w": "structured", "shape": list(shp), "R": R, "weights": w.tolist(), "factors": [f.tolist() for f in fm],
                   "core": core.tolist(), "tfactors": [f.tolist() for f in tf], "sparse_core": False,
                   "dense": gen.normals(rng, shp).tolist(), "sparse": gen.sparsify(rng, gen.normals(rng, shp), "one").tolist(),
                   "parts": ["ktensor", "tensor"], "rdims": [0], "cdims": list(range(1, len(shp)))}


    # Kruskal tensors with as many or more components than entries (rank = entries - 1, entries, entries + 1, twice the entries)
    for shp in [(2, 2), (2, 3), (3, 2), (2, 2, 2), (1, 3), (2, 1, 2), (3,), (2, 3, 2)]:
        cells = int(np.prod(shp))
        for R in sorted({max(1, cells - 1), cells, cells + 1, 2 * cells}):
            w, fm = gen.rand_ktensor_parts(rng, shp, R)
            core, tf = gen.rand_ttensor_parts(rng, shp, [1] * len(shp))
            r, c = gen.ordered_partitions(len(shp))[int(rng.integers(0, len(gen.ordered_partitions(len(shp)))))]
            yield {"w": "structured", "shape": list(shp), "R": R, "weights": w.tolist(), "factors": [f.tolist() for f in fm],
                   "core": core.tolist(), "tfactors": [f.tolist() for f in tf], "sparse_core": False,
                   "dense": gen.normals(rng, shp).tolist(), "sparse": gen.sparsify(rng, gen.normals(rng, shp), "some").tolist(),
                   "parts": ["ktensor", "sptensor"], "rdims": r, "cdims": c, "overcomplete": ["below", "equal", "above"][int(np.sign(R - cells)) + 1]}


def _nnzc(n):
    return "0" if n == 0 else ("1" if n == 1 else "2+")


def gen_cases(tier, seed):
    # dense-holder history: every third case reaches its dense operand by growth (subtensor assignment past the extent) instead of the constructor
    for i, case in enumerate(_gen_cases(tier, seed)):
        case["hist"] = "grown" if (i + int(seed)) % 3 == 1 else "ctor"
        case["dense_type"] = ["float", "int64", "float", "int32", "int64"][(i + int(seed)) % 5]
        yield case


def run_case(case, ctx):
    w = case["w"]
    shape = tuple(case["shape"])
    ctx.feat(N=len(shape), has_singleton=bool(1 in shape))
    if w == "dense_sparse":
        _dense_sparse(case, ctx, shape)
    elif w == "matricize":
        _matricize(case, ctx, shape)
    else:
        _structured(case, ctx, shape)


def _dense_sparse(case, ctx, shape):
    dt = {"int": np.int64, "bool": bool}.get(case.get("dtype"), float)
    A = np.array(case["A"], dtype=dt).reshape(shape)
    nnz = int(np.count_nonzero(A))
    ctx.feat(nnzc=_nnzc(nnz), order=case["ordk"], pattern=case["pattern"])
    ctx.tag("nnz=" + _nnzc(nnz))
    T = gen.mk_tensor(ttb, A, case.get("hist", "ctor")) if dt is float else ttb.tensor(A.copy())
    S = ctx.must("tensor.to_sptensor", T.to_sptensor)
    ctx.structural(S, "tensor.to_sptensor", nozero=True)
    ctx.check(same(denote(S), A), "tensor.to_sptensor", "WRONG", lambda: f"to_sptensor denotes {denote(S).tolist()} want {A.tolist()}")
    ctx.check(tuple(S.shape) == shape and S.nnz == nnz, "tensor.to_sptensor", "WRONG-META", f"shape {S.shape} nnz {S.nnz} want {shape} {nnz}")
    r = ctx.must("tensor.find", T.find)
    subs, vals = r
    ok = isinstance(subs, np.ndarray) and isinstance(vals, np.ndarray) and vals.size == nnz and (nnz == 0 or subs.shape == (nnz, len(shape)))
    if ok and nnz:
        B = np.zeros(shape, dtype=A.dtype)
        B[tuple(np.asarray(subs).T)] = vals.reshape(-1)
        ok = same(B, A) and len({tuple(x) for x in subs.tolist()}) == nnz
    ctx.check(ok, "tensor.find", "WRONG", "find() does not list exactly the nonzeros")
    ctx.check(T.nnz == nnz, "tensor.nnz", "WRONG-META", f"nnz {T.nnz} want {nnz}")
    S0 = gen.mk_sptensor(ttb, A, case["order"])
    for op, fn in (("sptensor.full", S0.full), ("sptensor.to_tensor", S0.to_tensor), ("sptensor.double", S0.double)):
        D = ctx.must(op, fn)
        ctx.check(same(denote(D), A), op, "WRONG", lambda: f"{op} gives {denote(D).tolist()} want {A.tolist()}")
        if op != "sptensor.double":
            ctx.structural(D, op)
    ctx.check(S0.nnz == nnz, "sptensor.nnz", "WRONG-META", f"nnz {S0.nnz} want {nnz}")
    r = ctx.must("sptensor.find", S0.find)
    ok = len(r) == 2 and np.asarray(r[1]).size == nnz
    if ok and nnz:
        B = np.zeros(shape, dtype=A.dtype)
        B[tuple(np.asarray(r[0]).T)] = np.asarray(r[1]).reshape(-1)
        ok = same(B, A)
    ctx.check(ok, "sptensor.find", "WRONG", "sptensor.find() does not list the nonzeros")
    # round trip sparse -> dense -> sparse
    S2 = ctx.must("tensor.to_sptensor", ctx.must("sptensor.to_tensor", S0.to_tensor).to_sptensor)
    ctx.check(same(denote(S2), A) and S2.nnz == nnz, "roundtrip", "WRONG", "sparse->dense->sparse changed the tensor")
    if len(shape) == 2:
        M = ctx.must("sptensor.spmatrix", S0.spmatrix)
        ctx.check(M.shape == shape and same(np.asarray(M.toarray()), A), "sptensor.spmatrix", "WRONG", "spmatrix differs")


def _kw(case):
    form = case["form"]
    r = np.array(case["rdims"], dtype=int)
    c = np.array(case["cdims"], dtype=int)
    if form == "both":
        import zlib

        h_ = zlib.crc32(repr((case["shape"], case["rdims"], case["cdims"], case.get("pattern"))).encode())
        if h_ % 2 == 0:
            # the cyclic-order option beside an explicit column list: the explicit list decides (the option only orders the columns when
            # no column modes are given)
            return {"rdims": r, "cdims": c, "cdims_cyclic": ["fc", "bc", "t"][(h_ // 2) % 3]}
        return {"rdims": r, "cdims": c}
    if form == "rdims":
        return {"rdims": r}
    if form == "cdims":
        return {"cdims": c}
    return {"rdims": np.array([case["n"]]), "cdims_cyclic": form}


def _expected_dims(case, N):
    form = case["form"]
    r, c = list(case["rdims"]), list(case["cdims"])
    if form == "rdims":
        c = sorted(c)
    if form == "cdims":
        r = sorted(r)
    return r, c


def _matricize(case, ctx, shape):
    A = np.array(case["A"], dtype=float).reshape(shape)
    N = len(shape)
    nnz = int(np.count_nonzero(A))
    r, c = _expected_dims(case, N)
    ctx.feat(nnzc=_nnzc(nnz), order=case["ordk"], form=case["form"], r_empty=(len(r) == 0), c_empty=(len(c) == 0))
    ctx.tag("form=" + case["form"])
    ctx.tag(f"split={len(r)}|{len(c)}")
    refM = reference_matricize(A, r, c)
    kw = _kw(case)
    # ---- dense -----------------------------------------------------------------------
    T = gen.mk_tensor(ttb, A, case.get("hist", "ctor")) if A.dtype == float else ttb.tensor(A.copy())
    ctx.feat(hist=case.get("hist", "ctor"))
    M = ctx.must("tensor.to_tenmat", T.to_tenmat, **kw)
    ctx.structural(M, "tensor.to_tenmat")
    ok = (list(np.asarray(M.rindices).reshape(-1)) == r and list(np.asarray(M.cindices).reshape(-1)) == c
          and tuple(M.tshape) == shape and tuple(M.shape) == refM.shape)
    ctx.check(ok, "tensor.to_tenmat", "WRONG-META", f"rindices {M.rindices} cindices {M.cindices} tshape {M.tshape} shape {M.shape}; want r={r} c={c}")
    ctx.check(same(np.asarray(M.data), refM), "tensor.to_tenmat", "WRONG", lambda: f"matrix {np.asarray(M.data).tolist()} want {refM.tolist()}")
    ctx.check(same(denote(M), A), "tensor.to_tenmat", "WRONG", "tenmat denotes a different tensor")
    B = ctx.must("tenmat.to_tensor", M.to_tensor)
    ctx.check(same(denote(B), A), "tenmat.to_tensor", "WRONG", lambda: f"round trip gives {denote(B).tolist()} want {A.tolist()}")
    D = ctx.must("tenmat.double", M.double)
    ctx.check(same(np.asarray(D), refM), "tenmat.double", "WRONG", "double() differs from the matrix")
    Mt = ctx.must("tenmat.ctranspose", M.ctranspose)
    ok = (list(np.asarray(Mt.rindices).reshape(-1)) == c and list(np.asarray(Mt.cindices).reshape(-1)) == r
          and same(np.asarray(Mt.data), refM.T) and same(denote(Mt), A))
    ctx.check(ok, "tenmat.ctranspose", "WRONG", "ctranspose does not swap the mode split / transpose the matrix")
    M2 = ctx.must("tenmat.__init__", ttb.tenmat, refM.copy(), np.array(r, dtype=int), np.array(c, dtype=int), shape)
    ctx.check(same(denote(M2), A), "tenmat.__init__", "WRONG", "tenmat built from (matrix, rdims, cdims, tshape) denotes another tensor")
    B2 = ctx.must("tenmat.to_tensor", M2.to_tensor)
    ctx.check(same(denote(B2), A), "tenmat.to_tensor", "WRONG", "matrix -> tensor differs")
    # ---- Kruskal: the same call form (explicit splits, only-rdims / only-cdims, the cyclic column conventions) ----
    if N >= 1 and all(s_ >= 1 for s_ in shape):
        import zlib

        krng = np.random.default_rng(zlib.crc32(repr((shape, case["form"], case["rdims"], case["cdims"])).encode()))
        Rk = int(krng.integers(1, 4))
        wk_, fmk = gen.rand_ktensor_parts(krng, shape, Rk)
        K = gen.mk_ktensor(ttb, wk_, fmk)
        refK = denote(K)
        rk = ctx.call("ktensor.to_tenmat", K.to_tenmat, **kw)
        if rk.ok:
            MK = rk.value
            okm = (list(np.asarray(MK.rindices).reshape(-1)) == r and list(np.asarray(MK.cindices).reshape(-1)) == c and tuple(MK.tshape) == shape)
            ctx.check(okm, "ktensor.to_tenmat", "WRONG-META", f"rindices {MK.rindices} cindices {MK.cindices} tshape {MK.tshape}; want r={r} c={c}", form=case["form"])
            okv = np.asarray(MK.data).shape == reference_matricize(refK, r, c).shape and close(np.asarray(MK.data), reference_matricize(refK, r, c)) and close(denote(MK), refK)
            ctx.check(okv, "ktensor.to_tenmat", "WRONG", "ktensor.to_tenmat differs from the matricized Kruskal tensor", form=case["form"], holder="ktensor")
        else:
            ctx.check(False, "ktensor.to_tenmat", "RAISE:" + type(rk.exc).__name__, f"{rk.exc} | {rk.tb}", form=case["form"])
    # ---- sparse -----------------------------------------------------------------------
    S = gen.mk_sptensor(ttb, A, case["order"])
    SM = ctx.must("sptensor.to_sptenmat", S.to_sptenmat, **kw)
    ctx.structural(SM, "sptensor.to_sptenmat", nozero=True)
    ok = (list(np.asarray(SM.rdims).reshape(-1)) == r and list(np.asarray(SM.cdims).reshape(-1)) == c
          and tuple(SM.tshape) == shape)
    ctx.check(ok, "sptensor.to_sptenmat", "WRONG-META", f"rdims {SM.rdims} cdims {SM.cdims} tshape {SM.tshape}; want r={r} c={c}")
    ctx.check(same(denote_matrix(SM), refM), "sptensor.to_sptenmat", "WRONG", lambda: f"matrix {denote_matrix(SM).tolist()} want {refM.tolist()}")
    ctx.check(SM.nnz == nnz and tuple(SM.shape) == refM.shape, "sptensor.to_sptenmat", "WRONG-META", f"nnz {SM.nnz} shape {SM.shape}")
    r1 = ctx.call("sptenmat.to_sptensor", SM.to_sptensor)
    if r1.ok:
        ctx.structural(r1.value, "sptenmat.to_sptensor", nozero=True)
        ctx.check(same(denote(r1.value), A) and r1.value.nnz == nnz, "sptenmat.to_sptensor", "WRONG", "sptenmat -> sptensor differs")
    else:
        ctx.check(False, "sptenmat.to_sptensor", "RAISE:" + type(r1.exc).__name__, f"{r1.exc} | {r1.tb}")
    r2 = ctx.call("sptenmat.full", SM.full)
    if r2.ok:
        ctx.check(same(denote(r2.value), A) and same(np.asarray(r2.value.data), refM), "sptenmat.full", "WRONG", "sptenmat.full() differs")
    else:
        ctx.check(False, "sptenmat.full", "RAISE:" + type(r2.exc).__name__, f"{r2.exc} | {r2.tb}")
    r3 = ctx.call("sptenmat.double", SM.double)
    if r3.ok:
        ctx.check(same(np.asarray(r3.value.toarray()), refM), "sptenmat.double", "WRONG", "sptenmat.double() differs")
    else:
        ctx.check(False, "sptenmat.double", "RAISE:" + type(r3.exc).__name__, f"{r3.exc} | {r3.tb}")
    import scipy.sparse as sp

    srng = np.random.default_rng(int(np.abs(refM).sum() * 1000) % (2 ** 31) + refM.size)

    def _src(src):
        # every way a caller can hold the same matrix: dense, the three scipy formats, and coordinate lists that are not canonical
        # (shuffled, an entry split into several repeated coordinates that sum to it, an explicitly stored zero)
        if src == "ndarray":
            return refM.copy()
        if src == "F-ndarray":
            return np.asfortranarray(refM)
        if src in ("csr", "csc"):
            return getattr(sp, src + "_matrix")(refM)
        coo = sp.coo_matrix(refM)
        row, col, data = coo.row.copy(), coo.col.copy(), coo.data.copy()
        if src == "coo-shuffled" and len(data):
            pm = srng.permutation(len(data))
            row, col, data = row[pm], col[pm], data[pm]
        elif src == "coo-repeated" and len(data):
            k = int(srng.integers(0, len(data)))
            row, col = np.append(row, [row[k], row[k]]), np.append(col, [col[k], col[k]])
            data = np.append(data, [0.25 * data[k], 0.5 * data[k]])
            data[k] = 0.25 * data[k]
            pm = srng.permutation(len(data))
            row, col, data = row[pm], col[pm], data[pm]
        elif src == "coo-explicit-zero":
            zr = np.argwhere(refM == 0)
            if len(zr):
                z = zr[int(srng.integers(0, len(zr)))]
                row, col, data = np.append(row, z[0]), np.append(col, z[1]), np.append(data, 0.0)
        return sp.coo_matrix((data, (row, col)), shape=refM.shape)
    made = {}
    for src in ("ndarray", "F-ndarray", "coo", "csr", "csc", "coo-shuffled", "coo-repeated", "coo-explicit-zero"):
        arrsrc = _src(src)
        r4 = ctx.call("sptenmat.from_array", ttb.sptenmat.from_array, arrsrc, np.array(r, dtype=int), np.array(c, dtype=int), shape)
        if r4.ok:
            ctx.structural(r4.value, "sptenmat.from_array", nozero=True)
            ctx.check(same(denote(r4.value), A) and r4.value.nnz == nnz, "sptenmat.from_array", "WRONG", f"from_array({src}) denotes another tensor", src=src)
            made[src] = r4.value
            if "coo" in made and src != "coo":
                a_, b_ = made["coo"], r4.value
                eqv = (np.array_equal(np.asarray(a_.subs).reshape(-1, 2), np.asarray(b_.subs).reshape(-1, 2)) and
                       same(np.asarray(a_.vals, dtype=float).reshape(-1), np.asarray(b_.vals, dtype=float).reshape(-1)))
                ctx.check(eqv, "sptenmat.from_array", "FORM-DEPENDENT", f"the same matrix given as {src} and as canonical coo gives differently stored sptenmats", src=src)
        else:
            ctx.check(False, "sptenmat.from_array", "RAISE:" + type(r4.exc).__name__, f"{r4.exc} | {r4.tb}", src=src)
    # sptenmat constructor from (row, col) coordinate list in shuffled order
    rc = np.argwhere(refM != 0)
    if rc.shape[0]:
        rc = rc[np.asarray(case["order"], dtype=int) % rc.shape[0]] if len(set(np.asarray(case["order"]) % rc.shape[0])) == rc.shape[0] else rc
        vals = refM[tuple(rc.T)].reshape(-1, 1)
        r5 = ctx.call("sptenmat.__init__", ttb.sptenmat, rc.astype(int), vals.copy(), np.array(r, dtype=int), np.array(c, dtype=int), shape)
        if r5.ok:
            ctx.structural(r5.value, "sptenmat.__init__", nozero=True)
            ctx.check(same(denote(r5.value), A), "sptenmat.__init__", "WRONG", "sptenmat(subs, vals, ...) denotes another tensor")
        else:
            ctx.check(False, "sptenmat.__init__", "RAISE:" + type(r5.exc).__name__, f"{r5.exc} | {r5.tb}")


def _structured(case, ctx, shape):
    N = len(shape)
    K = gen.mk_ktensor(ttb, case["weights"], case["factors"])
    TT = gen.mk_ttensor(ttb, case["core"], case["tfactors"], case["sparse_core"])
    dtp = case.get("dense_type", "float")
    darr = np.array(case["dense"], dtype=float).reshape(shape)
    # element type of the dense part: a sum of parts is computed in the common (promoted) type, whatever the order of the parts
    dense = ttb.tensor(darr if dtp == "float" else np.round(darr * 3.0).astype(dtp))
    ctx.feat(dense_type=dtp)
    sparse = gen.mk_sptensor(ttb, np.array(case["sparse"], dtype=float).reshape(shape))
    holders = {"ktensor": K, "ttensor": TT, "tensor": dense, "sptensor": sparse}
    ctx.feat(R=min(case["R"], 4), components_vs_entries=case.get("overcomplete", "below"))
    for name, H in (("ktensor", K), ("ttensor", TT)):
        ref = denote(H)
        for meth in ("full", "to_tensor", "double"):
            op = f"{name}.{meth}"
            r = ctx.call(op, getattr(H, meth))
            if not r.ok:
                ctx.check(False, op, "RAISE:" + type(r.exc).__name__, f"{r.exc} | {r.tb}")
                continue
            got = denote(r.value)
            ctx.check(got.shape == shape and close(got, ref), op, "WRONG", lambda: f"{op}: {got.tolist()} want {ref.tolist()}")
    parts = [holders[p] for p in case["parts"]]
    ST = ctx.must("sumtensor.__init__", ttb.sumtensor, parts)
    ref = denote(ST)
    for meth in ("full", "to_tensor", "double"):
        op = f"sumtensor.{meth}"
        r = ctx.call(op, getattr(ST, meth))
        if not r.ok:
            ctx.check(False, op, "RAISE:" + type(r.exc).__name__, f"{r.exc} | {r.tb}", parts="+".join(case["parts"]))
            continue
        got = denote(r.value)
        ctx.check(got.shape == shape and close(got, ref), op, "WRONG", "sumtensor -> dense differs", parts="+".join(case["parts"]))
    ctx.check(tuple(ST.shape) == shape and ST.ndims == N and tuple(K.shape) == shape and tuple(TT.shape) == shape,
              "shape", "WRONG-META", "reported shape / ndims inconsistent")
    # Kruskal -> matricized
    r, c = case["rdims"], case["cdims"]
    refK = denote(K)
    rr = ctx.call("ktensor.to_tenmat", K.to_tenmat, np.array(r, dtype=int), np.array(c, dtype=int))
    if rr.ok:
        M = rr.value
        ok = close(np.asarray(M.data), reference_matricize(refK, r, c)) and close(denote(M), refK)
        ctx.check(ok, "ktensor.to_tenmat", "WRONG", "ktensor.to_tenmat differs from the matricized Kruskal tensor")
    else:
        ctx.check(False, "ktensor.to_tenmat", "RAISE:" + type(rr.exc).__name__, f"{rr.exc} | {rr.tb}")
