"""C10 -- Tucker decompositions meet their error bound and structural contract."""
import contextlib
import io
import itertools

import numpy as np

from .. import load
from .. import gen, refops
from ..denote import denote
from ..mutsan import state_digest

np_, ttb = load()
ID = "C10"
RULE = ("case = (algorithm hosvd/tucker_als, data with a designed spectrum (orthonormal Tucker ground truth whose mode-n Gram eigenvalues are known) or "
        "random dense, shape N=2..4, tolerance placed just below / above every cumulative-energy threshold or on a grid | explicit rank vector, "
        "sequential flag, dimorder, init, maxiters, case seed); every rank vector within the mode sizes for the small shapes, every dimorder for N=3; "
        "non-trivial = every case (non-zero data with >= 2 modes); distinct = hash of case")
ANCHORS = ["hosvd:hosvd", "tucker_als:tucker_als", "tensor:tensor.nvecs", "tensor:tensor.ttm", "tensor:tensor.to_tenmat"]
EXHAUSTIVE = {"quick": {"tolerances just below and just above every cumulative-energy threshold of every mode (designed spectra)": "complete per generated tensor",
                        "explicit rank vectors within mode sizes for shapes (2,3),(3,2,2)": "complete"},
              "thorough": {"same, 10x the tensors; dimorder permutations N=3": "complete"}}
WATCHDOG = {"quick": 900, "thorough": 3400}
EPS = np.finfo(float).eps


def nontrivial(case):
    return True


def _quiet(f, *a, **k):
    with contextlib.redirect_stdout(io.StringIO()):
        import warnings

        with warnings.catch_warnings():
            warnings.simplefilter("ignore")
            return f(*a, **k)


def gen_cases(tier, seed):
    rng = gen.rng_for(seed, ID, tier)
    cs = itertools.count(1)

    def C(**kw):
        kw["cseed"] = int(seed) * 32452843 + next(cs)
        return kw

    ntens = 8 if tier == "quick" else 80
    for i in range(ntens):
        N = int(rng.integers(2, 5))
        shape = [int(s) for s in rng.integers(2, 5, size=N)]
        dseed = int(rng.integers(0, 2 ** 31))
        fam = "designed" if i % 2 == 0 else "random"
        # thresholds are computed at run time from the data; the case says which threshold and which side
        for mode in range(N):
            for cut in range(1, shape[mode]):
                for side in ("below", "above"):
                    for seq in (True, False):
                        if seq is False and rng.random() < 0.5:
                            continue
                        yield C(w="hosvd_tol", fam=fam, shape=shape, dseed=dseed, mode=mode, cut=cut, side=side, sequential=seq,
                                dimorder=[int(x) for x in rng.permutation(N)] if rng.random() < 0.5 else None,
                                scale=[1.0, 1.0, 1e-3, 1e2, 1e-7, 1e5][int(rng.integers(0, 6))])
        for tol in (0.01, 0.1, 0.3, 0.5, 0.9, 0.999):
            yield C(w="hosvd_grid", fam=fam, shape=shape, dseed=dseed, tol=tol, sequential=bool(rng.integers(0, 2)),
                    dimorder=[int(x) for x in rng.permutation(N)] if rng.random() < 0.5 else None)
            # the bound is relative: it must hold for data of any norm (well below and well above 1)
            yield C(w="hosvd_grid", fam=fam, shape=shape, dseed=dseed, tol=tol, sequential=bool(rng.integers(0, 2)), dimorder=None,
                    scale=[1e-3, 1e-2, 1e3, 1e-6, 1e-9][int(rng.integers(0, 5))])
        # steeply decaying spectra with tolerances down to 1e-6: eigenvalues far below 1e-8 of the largest still decide the ranks
        for tol in (1e-6, 1e-5, 1e-4, 1e-3):
            yield C(w="hosvd_grid", fam="steep", shape=shape, dseed=dseed, tol=tol, sequential=bool(rng.integers(0, 2)), dimorder=None)
        # structured exact zeros in the data (eigenvectors with exact zero entries)
        for tol in (1e-8, 0.05, 0.3):
            for seq in (True, False):
                yield C(w="hosvd_grid", fam="structured-zeros", shape=shape, dseed=dseed + int(tol * 100), tol=tol, sequential=seq, dimorder=None)
        # the flag as callers produce it: a NumPy boolean from a comparison, 0 / 1
        for seqv in ("np.False_", "np.True_", 0, 1):
            yield C(w="hosvd_grid", fam=fam, shape=shape, dseed=dseed, tol=[1e-9, 0.2][int(rng.integers(0, 2))], sequential=seqv, dimorder=None)
        # element type of the stored data: the bound and the structural contract do not depend on it
        for st in ("float32", "int32", "uint8", "int16"):
            for tol in (1e-6, 1e-4, 0.05, 0.4):
                yield C(w="hosvd_grid", fam=fam, shape=shape, dseed=dseed, tol=tol, sequential=bool(rng.integers(0, 2)),
                        dimorder=[int(x) for x in rng.permutation(N)] if rng.random() < 0.5 else None, store=st)
            yield C(w="hosvd_ranks", fam=fam, shape=shape, dseed=dseed, ranks=[int(rng.integers(1, s_ + 1)) for s_ in shape], sequential=bool(rng.integers(0, 2)),
                    dimorder=None, store=st)
    for shape in [[2, 3], [3, 2, 2]] + ([[3, 3, 2], [2, 2, 2, 2]] if tier == "thorough" else []):
        dseed = int(rng.integers(0, 2 ** 31))
        for ranks in itertools.product(*[range(1, s + 1) for s in shape]):
            for seq in (True, False):
                yield C(w="hosvd_ranks", fam="random", shape=shape, dseed=dseed, ranks=list(ranks), sequential=seq, dimorder=None)
            if ranks[0] == 1:
                # 0 = "choose this mode's rank automatically"; the other modes stay explicit
                yield C(w="hosvd_ranks", fam="random", shape=shape, dseed=dseed, ranks=[0] + list(ranks[1:]), sequential=True, dimorder=None)
    # data of exactly low multilinear rank (numerical rank below the requested one: the surplus vectors belong to a zero eigenvalue and
    # must still be orthonormal), with tall unfoldings (a mode longer than the product of the others, also after sequential shrinking)
    for shape, true, ranks in (([10, 3, 3], [2, 2, 2], [4, 3, 3]), ([6, 6, 6], [2, 2, 2], [2, 2, 4]), ([8, 2, 3], [1, 1, 1], [3, 2, 2]), ([4, 9, 2], [2, 3, 1], [3, 5, 2]),
                               ([5, 5], [2, 2], [4, 3]), ([7, 2, 2, 2], [2, 1, 2, 1], [5, 2, 2, 2]), ([3, 12], [2, 2], [3, 3])):
        for seq in (True, False):
            for do_ in (None, list(range(len(shape)))[::-1]):
                yield C(w="hosvd_ranks", fam="exact-lowrank", true=true, shape=shape, dseed=int(rng.integers(0, 2 ** 31)), ranks=ranks, sequential=seq, dimorder=do_)
        yield C(w="hosvd_grid", fam="exact-lowrank", true=true, shape=shape, dseed=int(rng.integers(0, 2 ** 31)), tol=[1e-6, 1e-3, 0.1][int(rng.integers(0, 3))],
                sequential=bool(rng.integers(0, 2)), dimorder=None)
    # prescribed ranks that cut through a group of exactly equal eigenvalues (the ranks are still exactly the requested ones)
    for shape in ([3, 3, 3], [4, 4], [4, 4, 2], [4, 4, 4]):
        for dseed in (0, 1):
            for ranks in ([1] * len(shape), [min(3, s_) for s_ in shape], [1] + [2] * (len(shape) - 1)):
                ranks = [min(r_, s_) for r_, s_ in zip(ranks, shape)]
                for seq in (True, False):
                    yield C(w="hosvd_ranks", fam="tied", shape=shape, dseed=dseed, ranks=ranks, sequential=seq, dimorder=None)
    # spectra at the edge of the per-mode budget t = tol^2 ||X||^2 / d: after the dominant eigenvalues one of 0.95 t and several of
    # 0.95 t / n each -- the small ones may go (together 0.475 t), the one of 0.95 t must then stay; disjoint tail energies per mode
    for n_, d_, tol in ((8, 3, 0.2), (8, 3, 0.05), (7, 3, 0.3)):
        for seq in (True, False):
            yield C(w="hosvd_grid", fam="budget-edge", shape=[n_] * d_, dseed=int(n_ * 1000 + tol * 100), tol=tol, sequential=seq, dimorder=None)
        yield C(w="hosvd_grid", fam="budget-edge", shape=[n_] * d_, dseed=int(n_ * 1000 + tol * 100) + 1, tol=tol, sequential=True, dimorder=[2, 0, 1])
    if True:
        shape = [3, 4, 2]
        for p in itertools.permutations(range(3)):
            yield C(w="hosvd_grid", fam="random", shape=shape, dseed=7, tol=0.2, sequential=True, dimorder=list(p))
            yield C(w="hosvd_ranks", fam="random", shape=shape, dseed=7, ranks=[2, 2, 1], sequential=True, dimorder=list(p))
    # Tucker-ALS with unbalanced rank vectors (R_n > product of the other ranks): the leading vectors are not unique there, so only the
    # structural contract is judged (requested ranks, orthonormal factors, core relation, reported fit)
    for shape, ranks in (([3, 4, 4], [3, 1, 2]), ([4, 3, 5], [1, 2, 1]), ([4, 3], [4, 2]), ([3, 3, 3], [3, 1, 1]), ([5, 2, 2], [5, 2, 2])):
        for init in ("random", "nvecs"):
            yield C(w="tucker_als", fam="random", shape=shape, dseed=int(rng.integers(0, 2 ** 31)), ranks=ranks, init=init, scalar_rank=False,
                    dimorder=None, maxiters=int(rng.integers(1, 4)), printitn=0, gseed=int(rng.integers(0, 2 ** 31)), unbalanced=True)
    # Tucker-ALS on data that is low rank up to a tiny perturbation (fit within 1e-4 ... 1e-9 of 1)
    for i in range(12 if tier == "quick" else 80):
        N = 3 if i % 3 else 4
        shape = [int(s) for s in rng.integers(3, 6, size=N)]
        ranks = [2, 2, 2, 1][:N] if i % 2 else [int(rng.integers(1, 3)) for _ in shape]
        if not all(ranks[n] <= int(np.prod([ranks[k] for k in range(N) if k != n])) for n in range(N)):
            ranks = [2] * N
        yield C(w="tucker_als", fam="lowrank-noise", noise=[1e-5, 1e-6, 1e-4, 1e-8, 0.0, 1e-7][i % 6], shape=shape, dseed=int(rng.integers(0, 2 ** 31)), ranks=ranks,
                init=["random", "nvecs"][i % 2], scalar_rank=False, dimorder=None, maxiters=int(rng.integers(2, 6)), printitn=0, gseed=int(rng.integers(0, 2 ** 31)))
    # Tucker-ALS on data with a singleton mode, at every position of the sweep order (first, interior, last)
    for shape, ranks in (([4, 3, 1], [2, 2, 1]), ([1, 4, 3], [1, 2, 2]), ([3, 1, 4], [3, 1, 3]), ([4, 3, 1], [2, 3, 1]), ([3, 1, 1, 4], [2, 1, 1, 2]), ([1, 5], [1, 1])):
        N_ = len(shape)
        for do_ in [None] + [[int(x) for x in rng.permutation(N_)] for _ in range(2)]:
            for init in ("random", "nvecs", "given"):
                yield C(w="tucker_als", fam="random", shape=shape, dseed=int(rng.integers(0, 2 ** 31)), ranks=ranks, init=init, scalar_rank=False, dimorder=do_,
                        maxiters=int(rng.integers(1, 5)), printitn=int(rng.choice([0, 1])), gseed=int(rng.integers(0, 2 ** 31)), singleton=True)
    # Tucker-ALS with all ranks 1 from a start that is exactly orthogonal to the data in the first projection (the projected tensor is
    # zero: any unit vector is a leading vector, the run recovers in the next sweep)
    for shape, fib in (([4, 3, 3], [(1, 2), (2, 0)]), ([5, 3], [(1, 1)]), ([3, 4, 2, 2], [(1, 3), (2, 1), (3, 0)]), ([3, 3, 3], [(1, 0), (2, 2)])):
        for mi in (1, 2, 4):
            yield C(w="tucker_als", fam="zero-fibre", shape=shape, dseed=int(rng.integers(0, 2 ** 31)), ranks=[1] * len(shape), init="given", scalar_rank=False,
                    dimorder=None, maxiters=mi, printitn=0, gseed=int(rng.integers(0, 2 ** 31)), orthogonal_start=fib)
    # Tucker-ALS
    nals = 60 if tier == "quick" else 600
    for i in range(nals):
        N = int(rng.integers(3, 5)) if i % 3 else 3
        shape = [int(s) for s in rng.integers(3, 6, size=N)]
        # ranks with R_n <= prod of the other ranks and within the mode sizes
        while True:
            ranks = [int(rng.integers(1, min(3, s) + 1)) for s in shape]
            if all(ranks[n] <= int(np.prod([ranks[k] for k in range(N) if k != n])) for n in range(N)):
                break
        init = ["random", "nvecs", "given"][int(rng.integers(0, 3))]
        yield C(w="tucker_als", fam=["designed", "random"][i % 2], shape=shape, dseed=int(rng.integers(0, 2 ** 31)), ranks=ranks, init=init,
                scalar_rank=False, dimorder=[int(x) for x in rng.permutation(N)] if rng.random() < 0.5 else None,
                maxiters=int(rng.integers(1, 7)), printitn=int(rng.choice([0, 1, 2])), gseed=int(rng.integers(0, 2 ** 31)))


STORES = {"float32": np.float32, "int32": np.int32, "uint8": np.uint8, "int16": np.int16}


def _data(case):
    A = _data0(case) * float(case.get("scale", 1.0))
    st = case.get("store")
    if st in STORES:
        # the same values held in a narrower element type: the reference is the float64 image of what is stored
        if st == "float32":
            A = A.astype(np.float32)
        elif st == "uint8":
            A = np.clip(np.round(np.abs(A) / (np.max(np.abs(A)) + 1e-300) * 200.0), 0, 255).astype(np.uint8)
        else:
            A = np.round(A / (np.max(np.abs(A)) + 1e-300) * 3000.0).astype(STORES[st])
    return A


def _data0(case):
    rng = np.random.default_rng(case["dseed"])
    shape = tuple(case["shape"])
    if case["fam"] in ("designed", "steep"):
        # orthonormal factors and a core with geometrically decaying, distinct entries: the mode-n Gram spectrum is well spread
        ranks = shape
        U = [np.linalg.qr(rng.standard_normal((s, s)))[0] for s in shape]
        core = rng.standard_normal(ranks)
        for n, s in enumerate(shape):
            scale = ((0.45 if case["fam"] == "designed" else 0.04) ** np.arange(s)).reshape([-1 if k == n else 1 for k in range(len(shape))])
            core = core * scale
        A = refops.ttm(core, U, list(range(len(shape))))
    elif case["fam"] == "structured-zeros":
        # data with exact zeros in structured places: an all-zero leading slice, decoupled blocks, a superdiagonal that is not sorted
        kind = case["dseed"] % 3
        A = rng.standard_normal(shape)
        if kind == 0:
            idx = [slice(None)] * len(shape)
            idx[case["dseed"] % len(shape)] = 0
            A[tuple(idx)] = 0.0
        elif kind == 1:
            A = np.zeros(shape)
            h = [max(1, s_ // 2) for s_ in shape]
            A[tuple(slice(0, h_) for h_ in h)] = rng.standard_normal(h)
            A[tuple(slice(h_, None) for h_ in h)] = rng.standard_normal([s_ - h_ for s_, h_ in zip(shape, h)])
        else:
            A = np.zeros(shape)
            for i_ in range(min(shape)):
                A[(i_,) * len(shape)] = [2.0, 5.0, 3.0, 1.0, 4.0][i_ % 5]
    elif case["fam"] == "budget-edge":
        n_, d_, tol_, h_ = shape[0], len(shape), float(case["tol"]), 3
        tail = np.array([0.95] + [0.95 / n_] * (n_ - h_ - 1))            # squared tail singular values of every mode, in units of t
        t_ = (tol_ ** 2 * h_ / d_) / (1 - float(tail.sum()) * tol_ ** 2)  # ||X||^2 = h + d * sum(tail) * t  and  t = tol^2 ||X||^2 / d
        core = np.zeros(shape)
        for a_ in range(h_):
            core[(a_,) * d_] = 1.0
        free = [c_ for c_ in itertools.product(range(h_), repeat=d_ - 1) if len(set(c_)) > 1]
        for k_ in range(d_):
            for i_ in range(h_, n_):
                idx = list(free[i_ - h_])
                idx.insert(k_, i_)
                core[tuple(idx)] = np.sqrt(tail[i_ - h_] * t_)
        A = core
        for k_ in range(d_):
            Q = np.linalg.qr(rng.standard_normal((n_, n_)))[0]
            A = np.moveaxis(np.tensordot(Q, A, axes=(1, k_)), 0, k_)
        return A
    elif case["fam"] == "tied":
        # exactly repeated Gram eigenvalues: a superdiagonal with equal entries, or two identical independent blocks
        if case["dseed"] % 2 == 0 or min(shape[:2]) < 4 or (len(shape) > 2 and shape[2] < 2):
            A = np.zeros(shape)
            w_ = [2.0, 2.0, 1.0, 1.0, 0.5]
            for i_ in range(min(shape)):
                A[(i_,) * len(shape)] = w_[i_ % 5]
        else:
            B = np.array([[2.0, 1.0], [1.0, 3.0]])
            A = np.zeros(shape)
            if len(shape) == 2:
                A[:2, :2] = B
                A[2:4, 2:4] = B
            else:
                A[:2, :2, 0] = B
                A[2:4, 2:4, 1] = B
    elif case["fam"] == "zero-fibre":
        A = rng.standard_normal(shape)
        idx = [slice(None)] * len(shape)
        for m_, j_ in case["orthogonal_start"]:
            idx[m_] = j_
        A[tuple(idx)] = 0.0
    elif case["fam"] == "exact-lowrank":
        U = [np.linalg.qr(rng.standard_normal((s, s)))[0][:, :r_] for s, r_ in zip(shape, case["true"])]
        A = refops.ttm(rng.standard_normal(case["true"]), U, list(range(len(shape))))
    elif case["fam"] == "lowrank-noise":
        # (almost) exactly of the requested multilinear rank: residuals between rounding level and 1e-4 of the data norm
        ranks = case["ranks"]
        U = [np.linalg.qr(rng.standard_normal((s, s)))[0][:, :r_] for s, r_ in zip(shape, ranks)]
        core = rng.standard_normal(ranks)
        A = refops.ttm(core, U, list(range(len(shape))))
        A = A + float(case.get("noise", 1e-6)) * np.linalg.norm(A) / np.sqrt(A.size) * rng.standard_normal(shape)
    else:
        A = rng.standard_normal(shape)
    return np.asarray(A, dtype=float)


def _check_ttensor(ctx, op, T, A, ranks=None, **f):
    """Structural contract shared by both algorithms: orthonormal factors, core = X x_n U_n^T."""
    ok = isinstance(T, ttb.ttensor) and tuple(T.shape) == A.shape
    ctx.check(ok, op, "WRONG-SHAPE", f"result {type(T).__name__} shape {getattr(T, 'shape', None)}", **f)
    if not ok:
        return False
    for n, U in enumerate(T.factor_matrices):
        r = U.shape[1]
        ctx.check(np.linalg.norm(U.T @ U - np.eye(r)) <= 1e-10, op, "NOT-ORTHONORMAL", f"factor {n}: ||U'U - I|| = {np.linalg.norm(U.T @ U - np.eye(r)):.3e}", mode=n, **f)
    core = denote(T.core)
    want = refops.ttm(A, T.factor_matrices, list(range(A.ndim)), transpose=True)
    sc = float(np.max(np.abs(A))) * 10
    ctx.check(core.shape == want.shape and bool(np.max(np.abs(core - want)) <= 1e-10 * sc), op, "WRONG-CORE", "core is not the data multiplied by the transposed factors", **f)
    if ranks is not None:
        ctx.check(tuple(core.shape) == tuple(ranks), op, "WRONG-RANKS", f"core shape {core.shape}, requested ranks {tuple(ranks)}", **f)
    return True


def run_case(case, ctx):
    Astored = _data(case)
    A = np.asarray(Astored, dtype=float)
    if not np.any(A):
        return
    shape = A.shape
    N = A.ndim
    X = ttb.tensor(Astored.copy())
    ctx.feat(store=str(case.get("store") or "float64"))
    xdig = state_digest(X)
    normX = float(np.linalg.norm(A))
    w = case["w"]
    ctx.feat(w=w, fam=case["fam"], N=N, sequential=case.get("sequential"), dimorder=case.get("dimorder") is not None)
    do = None if case.get("dimorder") is None else np.array(case["dimorder"])
    if w in ("hosvd_tol", "hosvd_grid"):
        if w == "hosvd_tol":
            # place the tolerance next to a cumulative-energy threshold of the chosen mode (non-sequential spectrum of the data itself)
            ev = np.sort(np.linalg.eigvalsh(refops.gram_mode(A, case["mode"])))[::-1]
            tail = float(np.sum(ev[case["cut"]:]))            # energy discarded when keeping `cut` vectors
            t0 = np.sqrt(max(tail, 0.0) * N) / normX           # tol at which tol^2 ||X||^2 / d == tail
            tol = t0 * (1 - 1e-6) if case["side"] == "below" else t0 * (1 + 1e-6)
            if not (0 < tol < 1):
                return
            ctx.feat(side=case["side"])
        else:
            tol = case["tol"]
        seqarg = {"np.False_": np.False_, "np.True_": np.True_}.get(case["sequential"], case["sequential"]) if isinstance(case["sequential"], str) else case["sequential"]
        ctx.feat(seq_type=type(seqarg).__name__)
        # call form: options by keyword, or by position in the documented order (data, tol, verbosity, dimorder, sequential)
        positional = bool(gen.pick(case) % 3 == 0) and not isinstance(case["sequential"], str)
        ctx.feat(positional=positional)
        if positional:
            r = ctx.call("hosvd", _quiet, ttb.hosvd, X, tol, 0, (np.arange(N) if do is None else do), seqarg)
        else:
            r = ctx.call("hosvd", _quiet, ttb.hosvd, X, tol, verbosity=0, sequential=seqarg, **({} if do is None else {"dimorder": do}))
        if not r.ok:
            ctx.check(False, "hosvd", "RAISE:" + type(r.exc).__name__, f"{type(r.exc).__name__}: {r.exc} | {r.tb}")
            return
        T = r.value
        ctx.check(state_digest(X) == xdig, "hosvd", "MUTATED", "data changed")
        if not _check_ttensor(ctx, "hosvd", T, A):
            return
        err = float(np.linalg.norm(A - denote(T))) / normX
        ctx.tag("ranks=" + "x".join(str(s) for s in T.core.shape))
        ctx.check(err <= tol * (1 + 1e-9) + 1e-13, "hosvd", "ERROR-BOUND", f"relative error {err!r} > tol {tol!r} (core {T.core.shape})")
        # not wasteful: dropping the weakest kept vector of any mode (non-sequential) must be checked by the algorithm's own rule only; here
        # we only assert the bound and that ranks are within the mode sizes
        ctx.check(all(1 <= c <= s for c, s in zip(T.core.shape, shape)), "hosvd", "WRONG-RANKS", f"core {T.core.shape} outside mode sizes {shape}")
    elif w == "hosvd_ranks":
        ranks = np.array(case["ranks"])
        rdig = ranks.copy()
        positional = bool(gen.pick(case) % 3 == 0)
        ctx.feat(positional=positional)
        if positional:
            r = ctx.call("hosvd", _quiet, ttb.hosvd, X, 0.5, 0, (np.arange(N) if do is None else do), case["sequential"], ranks)
        else:
            r = ctx.call("hosvd", _quiet, ttb.hosvd, X, 0.5, verbosity=0, sequential=case["sequential"], ranks=ranks, **({} if do is None else {"dimorder": do}))
        if not r.ok:
            ctx.check(False, "hosvd", "RAISE:" + type(r.exc).__name__, f"{type(r.exc).__name__}: {r.exc} | {r.tb}", explicit_ranks=True)
            return
        ctx.check(np.array_equal(ranks, rdig), "hosvd", "MUTATED", "caller's ranks array changed", who="ranks")
        if 0 in case["ranks"]:
            ok = _check_ttensor(ctx, "hosvd", r.value, A, explicit_ranks=True, partial_auto=True)
            if ok:
                cs_ = r.value.core.shape
                ctx.check(all(c == q for c, q in zip(cs_, case["ranks"]) if q != 0), "hosvd", "WRONG-RANKS", f"core {cs_} vs requested {case['ranks']}", partial_auto=True)
        else:
            _check_ttensor(ctx, "hosvd", r.value, A, ranks=case["ranks"], explicit_ranks=True)
    else:
        ranks = case["ranks"]
        ctx.feat(init=case["init"], maxiters=case["maxiters"])
        rng = np.random.default_rng(case["cseed"])
        if case["init"] == "given":
            init = [np.linalg.qr(rng.standard_normal((s, r_)))[0] for s, r_ in zip(shape, ranks)]
            if case.get("orthogonal_start"):
                # coordinate-vector start factors that pick out a fibre on which the data vanish: the first projection is exactly zero
                for m_, j_ in case["orthogonal_start"]:
                    init[m_] = np.eye(shape[m_], 1, -j_)
            idig = [u.copy() for u in init]
        else:
            init = case["init"]

        log = []

        class Rec(ttb.tensor):
            __slots__ = ()

            def ttm(self, matrix, dims=None, exclude_dims=None, transpose=False):
                if exclude_dims is not None and isinstance(matrix, list):
                    log.append((int(np.asarray(exclude_dims).reshape(-1)[0]), [None if m is None else np.array(m, copy=True) for m in matrix]))
                return super().ttm(matrix, dims, exclude_dims, transpose)
        Rec.__name__ = "tensor"
        XR = Rec(A.copy())
        np.random.seed(case["gseed"])
        r = ctx.call("tucker_als", _quiet, ttb.tucker_als, XR, np.array(ranks), init=init, maxiters=case["maxiters"], stoptol=0.0,
                     printitn=case["printitn"], **({} if do is None else {"dimorder": do}))
        if not r.ok:
            ctx.check(False, "tucker_als", "RAISE:" + type(r.exc).__name__, f"{type(r.exc).__name__}: {r.exc} | {r.tb}")
            return
        T, Uinit, out = r.value
        ctx.check(state_digest(XR) == xdig, "tucker_als", "MUTATED", "data changed")
        if case["init"] == "given":
            ctx.check(all(np.array_equal(a, b) for a, b in zip(init, idig)), "tucker_als", "MUTATED", "caller's initial factors changed", who="guess")
        if not _check_ttensor(ctx, "tucker_als", T, A, ranks=ranks):
            return
        R2 = float(np.sum((A - denote(T)) ** 2))
        tolR = 1e4 * EPS * normX ** 2
        ctx.check(abs(out["normresidual"] ** 2 - R2) <= tolR, "tucker_als", "WRONG-RESIDUAL", f"reported normresidual^2 {out['normresidual'] ** 2!r} vs recomputed {R2!r}")
        fit = 1 - np.sqrt(R2) / normX
        ftol = tolR / (2 * max(np.sqrt(R2), 1e-300) * normX) + 1e-12
        ctx.check(abs(out["fit"] - fit) <= ftol, "tucker_als", "WRONG-FIT", f"reported fit {out['fit']!r} vs recomputed {fit!r}")
        ctx.check(out["iters"] <= case["maxiters"], "tucker_als", "ITERS", f"iters {out['iters']} maxiters {case['maxiters']}")
        # monotone fit inside this run, reconstructed from the proxy's projection log: the factor list passed at the first projection of
        # sweep s+1 is the model after sweep s
        order = list(range(N)) if do is None else [int(d) for d in do]
        # (sweeps counted from the projection log; the reported count may number them from 0 or from 1)
        nsweeps = len(log) // N
        ctx.check(len(log) == nsweeps * N and 1 <= nsweeps <= case["maxiters"] and out["iters"] in (nsweeps - 1, nsweeps), "tucker_als", "ITERS",
                  f"{len(log)} projections over {N} modes, reported iters {out['iters']}, maxiters {case['maxiters']}")
        energies = []
        for s in range(1, nsweeps):
            n0, U = log[s * N]
            if any(u is None for k, u in enumerate(U)):
                continue
            core = refops.ttm(A, U, list(range(N)), transpose=True)
            energies.append(float(np.sum(core ** 2)))
        energies.append(float(np.sum(denote(T.core) ** 2)))
        if case.get("unbalanced"):
            return
        for a, b in zip(energies, energies[1:]):
            ctx.check(b >= a - 1e4 * EPS * normX ** 2, "tucker_als", "NON-MONOTONE", f"captured energy fell from {a!r} to {b!r} between sweeps (sequence {energies})")
