"""C06 -- sparse results are well-formed and independent of the stored order of nonzeros."""
import itertools
import operator

import numpy as np

from .. import load
from .. import gen, refops
from ..denote import denote, denote_matrix, same, close, kind, reference_matricize
from ..wellformed import wellformed

np_, ttb = load()
ID = "C06"
RULE = ("case = (sparse operation, shape, operand arrays with n<=3 (quick) / n<=4 (thorough) nonzeros, case seed); the operation runs under ALL "
        "n! stored orders of each operand (all order pairs for binary operations), random orders for up to 30 nonzeros; every returned "
        "sptensor/sptenmat goes through the structural sanitizer, all orders must denote the same result and equal the reference; "
        "non-trivial = an operand has >= 2 nonzeros; distinct = hash of case")
ANCHORS = [
    "sptensor:sptensor.from_aggregator", "pyttb_utils:tt_intersect_rows", "pyttb_utils:tt_setdiff_rows", "pyttb_utils:tt_ismember_rows",
    "sptensor:sptensor.__mul__", "sptensor:sptensor.__truediv__", "sptensor:sptensor.__eq__", "sptensor:sptensor.__ne__",
    "sptensor:sptensor._compare", "sptensor:sptensor.mask", "sptensor:sptensor.extract", "sptensor:sptensor.squash",
    "sptenmat:sptenmat.__init__", "sptenmat:sptenmat.__setitem__", "sptensor:sptensor.__getitem__", "sptensor:sptensor.__setitem__",
    "sptensor:sptensor.collapse", "sptensor:sptensor.contract", "sptensor:sptensor.ttv", "sptensor:sptensor.ttm",
    "sptensor:sptensor.elemfun", "sptensor:sptensor.scale", "sptensor:sptensor.to_sptenmat", "sptensor:sptensor.permute",
    "sptensor:sptensor.reshape", "sptensor:sptensor.squeeze", "sptensor:sptensor.logical_and",
]
EXHAUSTIVE = {
    "quick": {"stored orders of each operand with <= 3 nonzeros (up to 6x6 order pairs)": "complete"},
    "thorough": {"stored orders of each operand with <= 4 nonzeros (up to 24x24 order pairs)": "complete"},
}
THOROUGH_PASSES = 2     # the thorough generator of this property is already minutes long
WATCHDOG = {"quick": 900, "thorough": 3400}

BINOPS = ["__add__", "__sub__", "__mul__", "__truediv__", "__eq__", "__ne__", "__lt__", "__le__", "__gt__", "__ge__",
          "logical_and", "logical_or", "logical_xor", "innerprod", "mask", "scale_sp"]
UNOPS = ["logical_not", "ones", "elemfun", "neg", "pos", "norm", "full", "sptenmat_rt", "sptenmat_ctor", "sptenmat_setitem", "sptenmat_isequal", "permute",
         "reshape", "squeeze", "squash", "collapse", "contract", "ttv", "ttm", "mttkrp", "extract", "getitem_region", "getitem_subs",
         "setitem_subs", "setitem_region", "eq_scalar", "ne_scalar", "lt_scalar", "ge_scalar", "mul_scalar", "div_scalar", "div0",
         "and_dense", "mul_dense", "eq_dense", "gt_dense", "div_dense", "copy", "spmatrix", "from_aggregator", "innerprod_dense", "scale_dense"]
# combine / filter operations after which no explicit zero may be stored (DESIGN C06.W)
NOZERO = {"__add__", "__sub__", "logical_and", "logical_or", "logical_xor", "logical_not", "__eq__", "__ne__", "__lt__", "__le__",
          "__gt__", "__ge__", "collapse", "contract", "ttv", "ttm", "elemfun", "from_aggregator", "setitem_subs", "setitem_region",
          "eq_scalar", "ne_scalar", "lt_scalar", "ge_scalar", "and_dense", "eq_dense", "gt_dense", "sptenmat_ctor", "sptenmat_rt",
          "sptenmat_setitem"}


# ... and every other operation that computes values: an explicit zero in a result is a stored "nonzero" for nnz, ==, !=, logical_not / and / or
# (structure-based operators), so the next operation on that result would no longer follow the array it denotes
NOZERO2 = {"__mul__", "__truediv__", "mul_scalar", "div_scalar", "mul_dense", "div_dense", "scale_sp", "scale_dense", "neg", "pos", "ones", "permute", "reshape",
           "squeeze", "squash", "extract", "getitem_region", "copy", "mask", "sptenmat_rt"}


def nontrivial(case):
    return max(case["na"], case.get("nb", 0)) >= 2


def gen_cases(tier, seed):
    rng = gen.rng_for(seed, ID, tier)
    cs = itertools.count(1)
    maxn = 3 if tier == "quick" else 4
    shapes = [(2, 2), (3,), (2, 3), (2, 2, 2), (3, 1, 2), (2, 3, 2)]
    reps = 1 if tier == "quick" else 3
    for _ in range(reps):
        for op in BINOPS:
            for na in range(0, maxn + 1):
                for nb in range(0, maxn + 1):
                    shp = shapes[int(rng.integers(0, len(shapes)))]
                    if max(na, nb) > int(np.prod(shp)):
                        shp = (2, 3, 2)
                    if tier == "thorough" and na == 4 and nb == 4 and op not in ("__mul__", "__truediv__", "__eq__", "__ne__", "__le__", "mask"):
                        continue
                    yield {"w": "binary", "op": op, "shape": list(shp), "na": na, "nb": nb, "orders": "all",
                           "cseed": int(seed) * 104729 + next(cs)}
        for op in UNOPS:
            for na in range(0, maxn + 1):
                shp = shapes[int(rng.integers(0, len(shapes)))]
                if na > int(np.prod(shp)):
                    shp = (2, 3, 2)
                if op == "contract":
                    shp = [(2, 2), (2, 2, 2), (2, 3, 2), (3, 2, 3)][int(rng.integers(0, 4))]
                if op == "mttkrp" and len(shp) < 2:
                    shp = (2, 3)
                if op == "squash" and na == 0:
                    continue  # removing the empty slices of an all-zero tensor has no defined result
                yield {"w": "unary", "op": op, "shape": list(shp), "na": na, "orders": "all", "cseed": int(seed) * 104729 + next(cs)}
    # exact cancellation: two stored entries of one fibre sum to 0.0 at an addressed position of a long, mostly empty result mode -- the
    # result must not store that zero (and must be empty when everything cancels)
    for _ in range(2 if tier == "quick" else 12):
        for op in ("ttv", "collapse", "ttm"):
            for shp in ((2, 6), (2, 2, 7), (3, 8), (2, 9)):
                for na in (2, 3, 4):
                    yield {"w": "unary", "op": op, "shape": list(shp), "na": na, "orders": "all" if na <= 3 else "random", "cancel": True,
                           "cseed": int(seed) * 104729 + next(cs)}
    # reducers other than the sum: every one of them when only modes of size 1 are removed (each entry is a group of its own, and some
    # reducers give zero for a group of one) and over ordinary modes; the aggregating constructor with every reducer form
    for fun in ("np.max", "np.min", "np.ptp", "np.var", "absmax"):
        for shp, dims in (((3, 1, 2), "singletons"), ((1, 3, 2, 1), "singletons"), ((2, 1, 1, 3), "singletons"), ((2, 1, 3), None), ((3, 4), None), ((2, 2, 3), None)):
            for na in (1, 2, 3) if tier == "quick" else (1, 2, 3, 4, 6):
                yield {"w": "unary", "op": "collapse", "shape": list(shp), "na": na, "orders": "all" if na <= 4 else "random",
                       "force": {"fun": fun, "dims": dims}, "cseed": int(seed) * 104729 + next(cs)}
    # two sparse operands over one and the same set of positions (a model on the data's entries), every pair of stored orders
    for op in BINOPS:
        if op in ("mask", "scale_sp"):
            continue
        for shp in ((2, 3), (2, 2, 2)):
            for na in (2, 3):
                yield {"w": "binary", "op": op, "shape": list(shp), "na": na, "nb": na, "orders": "all", "same_pattern": True,
                       "cseed": int(seed) * 104729 + next(cs)}
    # region reads through index lists that are not ascending and through downward slices, in every mode / in one mode
    for rk in ("descending-lists", "downward-slices", "downward-partial", "one-list-unsorted", "downward-with-position"):
        for shp in ((3, 3), (4, 2, 3), (5,)):
            for na in (2, 3) if tier == "quick" else (2, 3, 4, 6):
                yield {"w": "unary", "op": "getitem_region", "shape": list(shp), "na": na, "orders": "all" if na <= 4 else "random",
                       "force": {"regionkind": rk}, "cseed": int(seed) * 104729 + next(cs)}
    for fun in ("np.sum", "np.max", "np.min", "max", "min", "smax", "smin"):
        for shp in ((2, 3, 2), (12,), (4, 3)):
            for na in (1, 2, 3, 4) if tier == "quick" else (1, 2, 3, 4, 7):
                yield {"w": "unary", "op": "from_aggregator", "shape": list(shp), "na": na, "orders": "all" if na <= 4 else "random",
                       "force": {"fun": fun}, "cseed": int(seed) * 104729 + next(cs)}
    # contraction of two modes of a tensor with two or more remaining modes: several diagonal entries that agree in every remaining mode
    # are summed into one stored entry (and dropped when they cancel)
    for _ in range(2 if tier == "quick" else 10):
        for shp, ij in (((2, 2, 2, 2), (0, 1)), ((2, 3, 2, 3), (0, 2)), ((3, 2, 2, 3), (0, 3)), ((2, 2, 3, 2, 2), (1, 3)), ((3, 3, 2, 2), (1, 0))):
            for na in (2, 3, 4):
                yield {"w": "unary", "op": "contract", "shape": list(shp), "na": na, "orders": "all" if na <= 3 else "random", "collide": list(ij),
                       "cseed": int(seed) * 104729 + next(cs)}
    # the structural sanitizer under the other properties' traffic: their quick workloads replayed with only ILLFORMED listening
    import importlib

    step = 10 if tier == "quick" else 2
    for p in ("C01", "C02", "C03", "C04", "C07", "C20"):
        mod = importlib.import_module(f"pvm.props.{p.lower()}")
        for i, c in enumerate(mod.gen_cases("quick", seed)):
            if i % step == 0:
                yield {"w": "cross", "prop": p, "case": c, "na": 2, "op": "cross:" + p}
    # larger operands, random orders
    for _ in range(3 if tier == "quick" else 20):
        for op in BINOPS + UNOPS:
            N = int(rng.integers(2 if op == "mttkrp" else 1, 5))
            shp = gen.rand_shape(rng, N, 2, 4)
            cells = int(np.prod(shp))
            na = int(rng.integers(2, min(30, cells) + 1))
            nb = int(rng.integers(2, min(30, cells) + 1))
            yield {"w": "binary" if op in BINOPS else "unary", "op": op, "shape": list(shp), "na": na, "nb": nb, "orders": "random",
                   "cseed": int(seed) * 104729 + next(cs)}


def _array_with(rng, shape, n, vals=(-2.0, -1.0, 1.0, 2.0, 0.5, 3.0)):
    cells = int(np.prod(shape))
    A = np.zeros(cells)
    pos = rng.choice(cells, size=min(n, cells), replace=False)
    A[pos] = rng.choice(vals, size=len(pos))
    return A.reshape(shape)


def _orders(rng, n, how):
    if n <= 1:
        return [list(range(n))]
    if how == "all" and n <= 4:
        return [list(p) for p in itertools.permutations(range(n))]
    if how == "all":
        # operands that grew past 4 nonzeros (forced ties add positions): identity, reversal and 22 drawn orders instead of n!
        return [list(range(n)), list(range(n - 1, -1, -1))] + [[int(x) for x in rng.permutation(n)] for _ in range(22)]
    out = [list(range(n)), list(range(n - 1, -1, -1))]
    for _ in range(3):
        out.append([int(x) for x in rng.permutation(n)])
    return out


def _canon(res):
    """Canonical, order-independent form of a result for the metamorphic comparison."""
    k = kind(res)
    if k in ("sptensor", "tensor", "sptenmat", "tenmat", "ktensor", "ttensor"):
        return k, denote(res)
    if k == "list":
        return k, [np.asarray(_canon(x)[1]) for x in res]
    if hasattr(res, "toarray"):
        return "spmatrix", np.asarray(res.toarray())
    return k, np.asarray(res)


def _same_canon(a, b, tol):
    if a[0] != b[0]:
        return False
    if isinstance(a[1], list):
        return len(a[1]) == len(b[1]) and all(_arr_same(x, y, tol) for x, y in zip(a[1], b[1]))
    return _arr_same(a[1], b[1], tol)


def _arr_same(x, y, tol):
    x, y = np.asarray(x), np.asarray(y)
    if x.shape != y.shape:
        return False
    if tol == 0:
        return same(x.astype(float), y.astype(float))
    return close(x, y, tol=tol)


def _cross(case, ctx):
    import importlib

    from ..core import CaseAbort
    from ..denote import DenoteError

    mod = importlib.import_module(f"pvm.props.{case['prop'].lower()}")
    ctx.accept = lambda s: s.startswith("ILLFORMED")
    np.random.seed(int(case["case"].get("gseed") or 0))
    try:
        mod.run_case(case["case"], ctx)
    except CaseAbort:
        pass
    except DenoteError as e:
        ctx.fail("cross:" + case["prop"], "ILLFORMED:denote", str(e))
    finally:
        ctx.accept = None


def run_case(case, ctx):
    if case["w"] == "cross":
        return _cross(case, ctx)
    rng = np.random.default_rng(case["cseed"])
    shape = tuple(case["shape"])
    op = case["op"]
    A = _array_with(rng, shape, case["na"])
    na = int(np.count_nonzero(A))
    binary = case["w"] == "binary"
    B = None
    nb = 0
    if binary:
        if op == "scale_sp":
            B = None
        elif op == "mask":
            B = (_array_with(rng, shape, case["nb"]) != 0).astype(float)
        else:
            B = _array_with(rng, shape, case["nb"])
            if rng.random() < 0.4:  # share positions / force ties so that pairing matters
                B = np.where((A != 0) & (rng.random(shape) < 0.7), A if rng.random() < 0.5 else A * 2, B)
        if case.get("same_pattern") and B is not None:
            B = np.where(A != 0, rng.choice([-3.0, -1.0, 2.0, 4.0, 0.25], size=shape), 0.0)
        nb = 0 if B is None else int(np.count_nonzero(B))
    params = _params(op, rng, shape, A)
    for k_, v_ in (case.get("force") or {}).items():
        if k_ == "regionkind":
            reg = []
            for m_, s_ in enumerate(shape):
                if v_ == "descending-lists":
                    reg.append(list(range(s_ - 1, -1, -1))[: max(2, s_ - int(rng.integers(0, 2)))])
                elif v_ == "downward-slices":
                    reg.append(slice(None, None, -1))
                elif v_ == "downward-partial":
                    reg.append(slice(s_ - 1 - int(rng.integers(0, 2)), None, -1) if s_ >= 3 else slice(None, None, -1))
                elif v_ == "one-list-unsorted":
                    reg.append(([s_ - 1] + list(range(0, s_ - 1))) if m_ == 0 else slice(None))
                else:
                    reg.append(slice(None, None, -1) if m_ == 0 else int(rng.integers(0, s_)))
            params["region"] = reg
        elif k_ == "dims":
            if v_ == "singletons":
                params["dims"] = [n for n in range(len(shape)) if shape[n] == 1]
        elif na or k_ != "fun" or op != "collapse":
            params[k_] = v_
    if case.get("cancel"):
        N_ = len(shape)
        A = np.zeros(shape)
        j = int(rng.integers(0, shape[-1]))
        lead = [tuple(int(x) for x in ix) for ix in np.ndindex(*shape[:-1])]
        i1, i2 = [lead[k] for k in rng.choice(len(lead), size=2, replace=False)]
        v = float(rng.choice([1.0, 2.0, 0.5, 3.0]))
        A[i1 + (j,)], A[i2 + (j,)] = v, -v
        for _k in range(case["na"] - 2):
            jj = int(rng.integers(0, shape[-1]))
            if jj != j:
                A[lead[int(rng.integers(0, len(lead)))] + (jj,)] = float(rng.choice([1.0, -2.0, 3.0]))
        na = int(np.count_nonzero(A))
        params["dims"] = list(range(N_ - 1))
        params["vecs"] = [np.ones(shape[d]) for d in range(N_ - 1)]
        params["mats"] = [np.ones((1, shape[d])) for d in range(N_ - 1)]
        ctx.feat(cancel=True)
    if case.get("collide"):
        i_, j_ = case["collide"]
        rest = [d for d in range(len(shape)) if d not in (i_, j_)]
        r_ = [int(rng.integers(0, shape[d])) for d in rest]
        A = np.zeros(shape)
        vals_ = [float(v) for v in rng.choice([1.0, 2.0, -1.0, 3.0], size=case["na"])]
        if rng.random() < 0.4:
            vals_[1] = -vals_[0]                       # the two diagonal entries cancel
        for k_ in range(min(case["na"], shape[i_])):
            idx = [0] * len(shape)
            idx[i_] = idx[j_] = k_
            for d, v in zip(rest, r_):
                idx[d] = v
            A[tuple(idx)] = vals_[k_]
        for k_ in range(shape[i_], case["na"]):
            A[tuple(int(rng.integers(0, s_)) for s_ in shape)] = vals_[k_]
        na = int(np.count_nonzero(A))
        params["ij"] = [i_, j_]
        ctx.feat(collide=True)
    if op == "scale_sp":
        B = params["F"]
        nb = int(np.count_nonzero(B))
    ctx.feat(opk=op, N=len(shape), na=("0" if na == 0 else "1" if na == 1 else "2+"), nb=("0" if nb == 0 else "1" if nb == 1 else "2+"),
             orders=case["orders"])
    oa = _orders(rng, na, case["orders"])
    ob = _orders(rng, nb, case["orders"]) if binary else [None]
    want = _reference(op, A, B, params)
    tol = 1e-12 if op in ("ttv", "ttm", "mttkrp", "norm", "innerprod", "innerprod_dense", "collapse", "contract", "scale_sp", "scale_dense") else 0
    first = None
    opname = _opname(op)
    for pa in oa:
        for pb in ob:
            SA = gen.mk_sptensor(ttb, A, pa)
            SB = gen.mk_sptensor(ttb, B, pb) if (binary and B is not None) else None
            ident = (pa == sorted(pa)) and (pb is None or pb == sorted(pb))
            r = ctx.call(opname, _invoke, op, SA, SB, params)
            if not r.ok:
                ctx.check(False, opname, "RAISE:" + type(r.exc).__name__, f"{type(r.exc).__name__}: {r.exc} | {r.tb}", identity_order=ident)
                continue
            res = r.value
            for obj in (res if isinstance(res, (list, tuple)) else [res]):
                if kind(obj) in ("sptensor", "sptenmat"):
                    ctx.evals += 1
                    for p in wellformed(obj, nozero=(op in NOZERO or op in NOZERO2)):
                        ctx.fail(opname, "ILLFORMED:" + _cls(p), p, identity_order=ident)
            try:
                can = _canon(res)
            except Exception as e:  # noqa: BLE001  (DenoteError -> ill-formed result)
                ctx.check(False, opname, "ILLFORMED:denote", str(e), identity_order=ident)
                continue
            if first is None:
                first = (can, pa, pb)
                if want is not None:
                    w = ("x", [np.asarray(v) for v in want]) if isinstance(want, list) else ("x", np.asarray(want))
                    ok = _same_canon(("x", can[1]), w, tol)
                    mech = {}
                    if not ok and op == "squash" and isinstance(can[1], np.ndarray) and isinstance(want, np.ndarray):
                        g = can[1]
                        if g.shape == (na,) * A.ndim and all(gs >= ws for gs, ws in zip(g.shape, want.shape)):
                            pad = np.zeros(g.shape)
                            pad[tuple(slice(0, s_) for s_ in want.shape)] = want
                            if same(g.astype(float), pad):
                                mech = {"mech": "shape=nnz-per-mode"}
                    ctx.check(ok, opname, "WRONG", **mech, detail= lambda: f"{op}: got {_show(can[1])} want {_show(want)} (A={A.tolist()}, B={None if B is None else B.tolist()})",
                              identity_order=ident)
            else:
                ctx.check(_same_canon(can, first[0], tol), opname, "ORDER-DEPENDENT",
                          lambda: f"{op}: stored orders {pa}/{pb} give {_show(can[1])}, orders {first[1]}/{first[2]} give {_show(first[0][1])}")


def _show(x):
    if isinstance(x, list):
        return [np.round(np.asarray(v, dtype=float), 6).tolist() for v in x]
    return np.round(np.asarray(x, dtype=float), 6).tolist()


def _cls(p):
    for key in ("vals-rows!=subs-rows", "duplicate", "outside", "explicit zero", "dtype", "nnz reports", "shape"):
        if key in p:
            return key.replace(" ", "-")
    return "other"


def _opname(op):
    table = {"neg": "__neg__", "pos": "__pos__", "scale_sp": "scale", "scale_dense": "scale", "sptenmat_rt": "to_sptenmat",
             "sptenmat_ctor": "sptenmat.__init__", "sptenmat_setitem": "sptenmat.__setitem__", "sptenmat_isequal": "sptenmat.isequal", "getitem_region": "__getitem__",
             "getitem_subs": "__getitem__", "setitem_subs": "__setitem__", "setitem_region": "__setitem__", "eq_scalar": "__eq__",
             "ne_scalar": "__ne__", "lt_scalar": "__lt__", "ge_scalar": "__ge__", "mul_scalar": "__mul__", "div_scalar": "__truediv__",
             "div0": "__truediv__", "and_dense": "logical_and", "mul_dense": "__mul__", "eq_dense": "__eq__", "gt_dense": "__gt__",
             "div_dense": "__truediv__", "innerprod_dense": "innerprod"}
    n = table.get(op, op)
    return n if "." in n else "sptensor." + n


def _params(op, rng, shape, A):
    N = len(shape)
    p = {}
    if op == "permute":
        p["order"] = [int(x) for x in rng.permutation(N)]
    elif op == "reshape":
        cells = int(np.prod(shape))
        from .c07 import factorizations

        f = factorizations(cells, 3)
        p["new_shape"] = list(f[int(rng.integers(0, len(f)))])
    elif op in ("collapse",):
        k = int(rng.integers(1, N + 1))
        p["dims"] = sorted(int(x) for x in rng.permutation(N)[:k])
        # the reducer is applied to the stored values of each remaining position (order-independent reducers only); some give zero
        # for a group of one (range, variance): such a result is dropped, also when only modes of size 1 are removed
        p["fun"] = ["sum", "sum", "np.max", "np.min", "np.ptp", "np.var", "absmax"][int(rng.integers(0, 7))]
        if not np.count_nonzero(A):
            p["fun"] = "sum"                  # (a reducer without a value for "no values at all" is not asked about an empty tensor)
        if p["fun"] in ("np.ptp", "np.var") and rng.random() < 0.5 and 1 in shape:
            p["dims"] = [n for n in range(N) if shape[n] == 1]
    elif op == "contract":
        p["ij"] = None
        pairs = [(i, j) for i in range(N) for j in range(N) if i != j and shape[i] == shape[j]]
        if pairs:
            p["ij"] = list(pairs[int(rng.integers(0, len(pairs)))])
    elif op in ("ttv", "ttm"):
        k = int(rng.integers(1, N + 1))
        dims = sorted(int(x) for x in rng.permutation(N)[:k])
        p["dims"] = dims
        if rng.random() < 0.5:
            # small-integer multiplicands: with the small-integer data values sums cancel to exactly 0.0 at addressed positions
            p["vecs"] = [rng.choice([1.0, -1.0, 1.0, 0.0, 2.0], size=shape[d]) for d in dims]
            p["mats"] = [rng.choice([1.0, -1.0, 1.0, 0.0, 2.0], size=(2, shape[d])) for d in dims]
        else:
            p["vecs"] = [gen.normals(rng, (shape[d],)) for d in dims]
            p["mats"] = [gen.normals(rng, (2, shape[d])) for d in dims]
    elif op == "mttkrp":
        p["n"] = int(rng.integers(0, N))
        p["U"] = [gen.normals(rng, (s, 2)) for s in shape]
    elif op in ("extract", "getitem_subs", "setitem_subs"):
        k = int(rng.integers(1, 5))
        subs = np.stack([rng.integers(0, s, size=k) for s in shape], axis=1)
        subs = np.unique(subs, axis=0)
        subs = subs[rng.permutation(subs.shape[0])]
        p["subs"] = subs
        v = rng.choice([0.0, 7.0, -3.0, 4.0], size=subs.shape[0])
        p["vals"] = v
    elif op in ("getitem_region", "setitem_region"):
        region = []
        for s in shape:
            c = int(rng.integers(0, 3))
            if c == 0:
                region.append(slice(None))
            elif c == 1:
                a = int(rng.integers(0, s))
                region.append(slice(a, int(rng.integers(a + 1, s + 1))))
            else:
                region.append(int(rng.integers(0, s)))
        if op == "getitem_region":
            # reads also take strided / reversed slices and index lists in any order (no repeats)
            for m_, s_ in enumerate(shape):
                c2 = rng.random()
                if c2 < 0.2:
                    region[m_] = slice(None, None, int(rng.choice([2, -1, -2])))
                elif c2 < 0.4:
                    k_ = int(rng.integers(1, s_ + 1))
                    region[m_] = [int(x) for x in rng.permutation(s_)[:k_]]
        if all(isinstance(r, int) for r in region):
            region[0] = slice(None)
        p["region"] = region
        p["value"] = float(rng.choice([0.0, 5.0]))
    elif op in ("eq_scalar", "ne_scalar", "lt_scalar", "ge_scalar", "mul_scalar", "div_scalar"):
        # (division: also infinite divisors, for which every quotient is exactly zero)
        p["c"] = float(rng.choice([-1.0, 1.0, 2.0, 0.5, 0.0] if op not in ("div_scalar",) else [-1.0, 2.0, 0.5, np.inf, -np.inf]))
    elif op in ("and_dense", "mul_dense", "eq_dense", "gt_dense", "div_dense", "innerprod_dense"):
        D = _array_with(rng, shape, int(rng.integers(0, int(np.prod(shape)) + 1)))
        D = np.where((A != 0) & (rng.random(shape) < 0.5), A, D)
        if op == "div_dense":
            D = np.where(D == 0, 4.0, D)
            if rng.random() < 0.4:
                D = np.where((A != 0) & (rng.random(shape) < 0.5), np.inf, D)      # some quotients are exactly zero
        p["D"] = D
    elif op in ("scale_sp", "scale_dense"):
        d = int(rng.integers(0, N))
        p["dims"] = [d]
        F = _array_with(rng, (shape[d],), int(rng.integers(1, shape[d] + 1)))
        p["F"] = F
    elif op in ("sptenmat_rt", "sptenmat_ctor", "sptenmat_setitem", "sptenmat_isequal"):
        parts = gen.ordered_partitions(N)
        p["r"], p["c"] = parts[int(rng.integers(0, len(parts)))]
        p["more"] = bool(rng.integers(0, 2))
    elif op == "from_aggregator":
        p["dup"] = [int(x) for x in rng.integers(1, 3, size=max(1, int(np.count_nonzero(A))))]
        p["fun"] = ["default", "np.sum", "np.max", "np.min", "max", "min", "smax", "smin"][int(rng.integers(0, 8))]
    return p


def _absmax(x):
    return float(np.max(np.abs(x)))


_REDUCERS = {"sum": np.sum, "np.sum": np.sum, "np.max": np.max, "np.min": np.min, "max": max, "min": min, "smax": "max", "smin": "min",
             "np.ptp": np.ptp, "np.var": np.var, "absmax": _absmax}
_REDUCE_REF = {"sum": np.sum, "np.sum": np.sum, "np.max": np.max, "np.min": np.min, "max": np.max, "min": np.min, "smax": np.max, "smin": np.min,
               "np.ptp": np.ptp, "np.var": np.var, "absmax": _absmax}
# how many times a position is listed in the aggregating constructor, and what multiples of its value are listed (in this order: the
# largest / smallest member is neither first nor last when there are three or more)
_MEMBERS = {1: [1.0], 2: [1.0, 2.0], 3: [1.0, 3.0, 2.0], 4: [2.0, 1.0, 4.0, 3.0]}


def _members_of(lin):
    return _MEMBERS[1 + int(lin) % 4]


def _invoke(op, SA, SB, p):
    if op in ("__add__", "__sub__", "__mul__", "__truediv__", "__eq__", "__ne__", "__lt__", "__le__", "__gt__", "__ge__"):
        return getattr(operator, op.strip("_"))(SA, SB)
    if op == "mask":
        vals = np.asarray(SA.mask(SB)).reshape(-1)
        wsubs, _ = SB.find()
        out = np.zeros(SA.shape)
        if np.asarray(wsubs).size:
            if vals.size != np.asarray(wsubs).shape[0]:
                raise ValueError(f"mask returned {vals.size} values for {np.asarray(wsubs).shape[0]} mask entries")
            out[tuple(np.asarray(wsubs).T)] = vals
        return out
    if op in ("logical_and", "logical_or", "logical_xor", "innerprod"):
        return getattr(SA, op)(SB)
    if op == "scale_sp":
        return SA.scale(SB, np.array(p["dims"]))
    if op == "scale_dense":
        return SA.scale(p["F"].copy(), np.array(p["dims"]))
    if op in ("logical_not", "ones", "norm", "full", "squeeze", "squash", "copy"):
        return getattr(SA, op)()
    if op == "elemfun":
        return SA.elemfun(lambda v: v * v - 1.0)
    if op == "neg":
        return -SA
    if op == "pos":
        return +SA
    if op == "sptenmat_rt":
        M = SA.to_sptenmat(np.array(p["r"], dtype=int), np.array(p["c"], dtype=int))
        return [M, M.to_sptensor()]
    if op == "sptenmat_isequal":
        # the matricized form of this tensor and of the same tensor stored in sorted order are equal as objects (isequal), whichever
        # way they are built: conversion, constructor from the coordinate list, copy
        r_, c_ = np.array(p["r"], dtype=int), np.array(p["c"], dtype=int)
        M = SA.to_sptenmat(r_, c_)
        if SA.nnz:
            o_ = np.lexsort(np.asarray(SA.subs).T[::-1])
            SC = ttb.sptensor(np.asarray(SA.subs)[o_].copy(), np.asarray(SA.vals)[o_].copy(), SA.shape)
        else:
            SC = SA.copy()
        Mref = SC.to_sptenmat(r_, c_)
        ok = bool(M.isequal(Mref)) and bool(Mref.isequal(M)) and bool(M.copy().isequal(Mref))
        if M.subs.size:
            ok = ok and bool(ttb.sptenmat(M.subs.copy(), M.vals.copy(), M.rdims.copy(), M.cdims.copy(), M.tshape).isequal(Mref))
        return float(ok)
    if op == "sptenmat_ctor":
        M = SA.to_sptenmat(np.array(p["r"], dtype=int), np.array(p["c"], dtype=int))
        # rebuild from its coordinate list presented in reversed order, with copying (sort + aggregate path)
        if M.subs.size:
            return ttb.sptenmat(M.subs[::-1].copy(), M.vals[::-1].copy(), M.rdims.copy(), M.cdims.copy(), M.tshape)
        return M
    if op == "sptenmat_setitem":
        M = SA.to_sptenmat(np.array(p["r"], dtype=int), np.array(p["c"], dtype=int))
        sh = M.shape
        M[sh[0] - 1, sh[1] - 1] = 9.0
        M[0, 0] = 8.0
        if p.get("more"):
            # an index list naming a row more than once, and zero assigned to a stored and to an empty position
            M[[0, sh[0] - 1, 0], sh[1] - 1] = 4.0
            M[0, 0] = 0
            M[sh[0] - 1, 0] = 0.0
        return M
    if op == "permute":
        return SA.permute(np.array(p["order"]))
    if op == "reshape":
        return SA.reshape(tuple(p["new_shape"]))
    if op == "collapse":
        if p.get("fun", "sum") == "sum":
            return SA.collapse(np.array(p["dims"]))
        return SA.collapse(np.array(p["dims"]), _REDUCERS[p["fun"]])
    if op == "contract":
        if p["ij"] is None:
            return 0.0
        return SA.contract(*p["ij"])
    if op == "ttv":
        return SA.ttv([v.copy() for v in p["vecs"]], np.array(p["dims"]))
    if op == "ttm":
        return SA.ttm([m.copy() for m in p["mats"]], np.array(p["dims"]))
    if op == "mttkrp":
        return SA.mttkrp([u.copy() for u in p["U"]], p["n"])
    if op == "extract":
        return SA.extract(p["subs"].copy())
    if op == "getitem_subs":
        return np.asarray(SA[p["subs"].copy()]).reshape(-1)
    if op == "getitem_region":
        return SA[tuple(p["region"])]
    if op == "setitem_subs":
        S2 = SA.copy()
        S2[p["subs"].copy()] = p["vals"].reshape(-1, 1).copy()
        return S2
    if op == "setitem_region":
        S2 = SA.copy()
        S2[tuple(p["region"])] = p["value"]
        return S2
    if op == "eq_scalar":
        return SA == p["c"]
    if op == "ne_scalar":
        return SA != p["c"]
    if op == "lt_scalar":
        return SA < p["c"]
    if op == "ge_scalar":
        return SA >= p["c"]
    if op == "mul_scalar":
        return SA * p["c"]
    if op == "div_scalar":
        return SA / p["c"]
    if op == "div0":
        return SA / 0
    D = ttb.tensor(p["D"].copy()) if "D" in p else None
    if op == "and_dense":
        return SA.logical_and(D)
    if op == "mul_dense":
        return SA * D
    if op == "eq_dense":
        return SA == D
    if op == "gt_dense":
        return SA > D
    if op == "div_dense":
        return SA / D
    if op == "innerprod_dense":
        return SA.innerprod(D)
    if op == "spmatrix":
        if SA.ndims != 2:
            return 0.0
        return SA.spmatrix()
    if op == "from_aggregator":
        subs, vals = SA.subs, SA.vals
        if SA.nnz == 0:
            return ttb.sptensor.from_aggregator(np.empty((0, SA.ndims), dtype=int), np.empty((0, 1)), SA.shape)
        if p.get("fun", "default") != "default":
            lin = np.ravel_multi_index(tuple(subs.T), SA.shape)
            s2 = np.concatenate([np.repeat(subs[i:i + 1], len(_members_of(lin[i])), axis=0) for i in range(subs.shape[0])], axis=0)
            v2 = np.concatenate([float(vals[i, 0]) * np.array(_members_of(lin[i])) for i in range(subs.shape[0])]).reshape(-1, 1)
            return ttb.sptensor.from_aggregator(s2, v2, SA.shape, _REDUCERS[p["fun"]])
        rep = np.array(p["dup"][: subs.shape[0]] + [1] * max(0, subs.shape[0] - len(p["dup"])))
        s2 = np.repeat(subs, rep, axis=0)
        v2 = np.repeat(vals / rep[:, None], rep, axis=0)
        return ttb.sptensor.from_aggregator(s2, v2, SA.shape)
    raise ValueError(op)


def _reference(op, A, B, p):
    e = dict(all="ignore")
    with np.errstate(**e):
        if op == "__add__":
            return A + B
        if op == "__sub__":
            return A - B
        if op == "__mul__":
            return A * B
        if op == "__truediv__":
            return None  # value semantics are C03's (known division conventions); here order-independence + structure
        if op in ("__eq__", "__ne__", "__lt__", "__le__", "__gt__", "__ge__"):
            return getattr(operator, op.strip("_"))(A, B).astype(float)
        if op == "logical_and":
            return ((A != 0) & (B != 0)).astype(float)
        if op == "logical_or":
            return ((A != 0) | (B != 0)).astype(float)
        if op == "logical_xor":
            return ((A != 0) ^ (B != 0)).astype(float)
        if op in ("innerprod",):
            return float(np.sum(A * B))
        if op == "innerprod_dense":
            return float(np.sum(A * p["D"]))
        if op == "mask":
            return A * (B != 0)  # values are scattered back to W's subscripts by _invoke
        if op in ("scale_sp", "scale_dense"):
            F = B if op == "scale_sp" else p["F"]
            d = p["dims"][0]
            sh = [1] * A.ndim
            sh[d] = A.shape[d]
            return A * F.reshape(sh)
        if op == "logical_not":
            return (A == 0).astype(float)
        if op == "ones":
            return (A != 0).astype(float)
        if op == "elemfun":
            return np.where(A != 0, A * A - 1.0, 0.0)
        if op == "neg":
            return -A
        if op in ("pos", "full", "copy"):
            return A
        if op == "norm":
            return float(np.sqrt(np.sum(A * A)))
        if op == "sptenmat_rt":
            return [A, A]
        if op == "sptenmat_isequal":
            return 1.0
        if op == "sptenmat_ctor":
            return A
        if op == "sptenmat_setitem":
            M = reference_matricize(A, p["r"], p["c"])
            M[M.shape[0] - 1, M.shape[1] - 1] = 9.0
            M[0, 0] = 8.0
            if p.get("more"):
                M[[0, M.shape[0] - 1, 0], M.shape[1] - 1] = 4.0
                M[0, 0] = 0
                M[M.shape[0] - 1, 0] = 0.0
            # back to tensor layout
            from ..denote import matricized_index

            ri, _ = matricized_index(A.shape, p["r"])
            ci, _ = matricized_index(A.shape, p["c"])
            return M[ri, ci].reshape(A.shape)
        if op == "permute":
            return np.transpose(A, p["order"])
        if op == "reshape":
            return refops.reshape_ff(A, p["new_shape"])
        if op == "squeeze":
            s = np.squeeze(A)
            return s if s.ndim else float(s)
        if op == "squash":
            used = [np.unique(np.argwhere(A != 0)[:, n]) for n in range(A.ndim)] if np.count_nonzero(A) else None
            return None if used is None else A[np.ix_(*used)]
        if op == "collapse":
            if p.get("fun", "sum") == "sum":
                return refops.collapse(A, p["dims"], np.sum)
            # the reducer sees the stored (non-zero) values of each remaining position only
            f = _REDUCE_REF[p["fun"]]
            rem = [n for n in range(A.ndim) if n not in p["dims"]]
            out = np.zeros([A.shape[n] for n in rem])
            groups = {}
            for pos in np.argwhere(A != 0):
                groups.setdefault(tuple(int(pos[n]) for n in rem), []).append(float(A[tuple(pos)]))
            for k_, v_ in groups.items():
                out[k_] = f(np.array(v_))
            return out if rem else float(out)
        if op == "contract":
            return 0.0 if p["ij"] is None else refops.contract(A, *p["ij"])
        if op == "ttv":
            return refops.ttv(A, p["vecs"], p["dims"])
        if op == "ttm":
            return refops.ttm(A, p["mats"], p["dims"])
        if op == "mttkrp":
            return refops.mttkrp(A, p["U"], p["n"])
        if op == "extract":
            return A[tuple(p["subs"].T)].reshape(-1, 1)
        if op == "getitem_subs":
            return A[tuple(p["subs"].T)].reshape(-1)
        if op == "getitem_region":
            idx = [np.arange(s_)[r_] if isinstance(r_, slice) else np.array([r_]) if isinstance(r_, int) else np.array(r_, dtype=int) for r_, s_ in zip(p["region"], A.shape)]
            r = A[np.ix_(*idx)]
            return r.reshape([len(i_) for i_, r_ in zip(idx, p["region"]) if not isinstance(r_, int)])
        if op == "setitem_subs":
            C = A.copy()
            C[tuple(p["subs"].T)] = p["vals"]
            return C
        if op == "setitem_region":
            C = A.copy()
            C[tuple(p["region"])] = p["value"]
            return C
        c = p.get("c")
        if op == "eq_scalar":
            return (A == c).astype(float)
        if op == "ne_scalar":
            return (A != c).astype(float)
        if op == "lt_scalar":
            return (A < c).astype(float)
        if op == "ge_scalar":
            return (A >= c).astype(float)
        if op == "mul_scalar":
            return A * c
        if op == "div_scalar":
            return A / c
        if op == "div0":
            return A / 0.0
        D = p.get("D")
        if op == "and_dense":
            return ((A != 0) & (D != 0)).astype(float)
        if op == "mul_dense":
            return A * D
        if op == "eq_dense":
            return (A == D).astype(float)
        if op == "gt_dense":
            return (A > D).astype(float)
        if op == "div_dense":
            return A / D
        if op == "spmatrix":
            return A if A.ndim == 2 else 0.0
        if op == "from_aggregator":
            if p.get("fun", "default") == "default":
                return A
            out = np.zeros(A.shape)
            for pos in np.argwhere(A != 0):
                lin = np.ravel_multi_index(tuple(pos), A.shape)
                out[tuple(pos)] = _REDUCE_REF[p["fun"]](float(A[tuple(pos)]) * np.array(_members_of(lin)))
            return out
    return None
