"""C18 -- decomposition results do not depend on how the problem is presented."""
import contextlib
import io
import itertools
import zlib
import logging

import numpy as np

from .. import load
from .. import gen
from ..denote import denote

np_, ttb = load()
from pyttb.gcp.handles import Objectives  # noqa: E402
from pyttb.gcp.optimizers import LBFGSB, SGD, Adam  # noqa: E402

logging.disable(logging.CRITICAL)
ID = "C18"
RULE = ("case = (algorithm, relation: dense-vs-sparse data | printing interval | re-run under the same global seed | positive rescaling (powers of two "
        "and generic factors) | consistent relabelling of modes of data, guess and dimorder (all N! for N=3), problem seed); each case runs the "
        "algorithm two or more times differing only in presentation and compares the denoted models (1e-8 relative; bit-identical for same-seed "
        "re-runs); non-trivial = every case; distinct = hash of case")
ANCHORS = ["cp_als:cp_als", "cp_apr:cp_apr", "cp_apr:tt_cp_apr_mu", "cp_apr:tt_cp_apr_pdnr", "hosvd:hosvd", "tucker_als:tucker_als", "gcp_opt:gcp_opt",
           "gcp.optimizers:LBFGSB.solve", "gcp.optimizers:StochasticSolver.solve"]
EXHAUSTIVE = {"quick": {"mode relabellings N=3 for cp_als / hosvd / tucker_als": "complete (6 each per problem)"},
              "thorough": {"mode relabellings N=3": "complete"}}
WATCHDOG = {"quick": 900, "thorough": 3400}
TOL = 1e-8

RELATIONS = [
    ("cp_als", "print"), ("cp_als", "seed"), ("cp_als", "scale"), ("cp_als", "relabel"), ("cp_als", "dense-sparse"),
    ("hosvd", "print"), ("hosvd", "scale"), ("hosvd", "relabel"),
    ("tucker_als", "print"), ("tucker_als", "seed"), ("tucker_als", "scale"), ("tucker_als", "relabel"),
    ("cp_apr:mu", "dense-sparse"), ("cp_apr:mu", "print"), ("cp_apr:mu", "seed"),
    ("cp_apr:pdnr", "dense-sparse"), ("cp_apr:pdnr", "print"), ("cp_apr:pdnr", "seed"),
    ("cp_apr:pqnr", "dense-sparse"), ("cp_apr:pqnr", "print"), ("cp_apr:pqnr", "seed"),
    ("gcp:lbfgsb", "print"), ("gcp:lbfgsb", "seed"), ("gcp:sgd", "seed"), ("gcp:adam", "seed"), ("gcp:sgd", "print"),
    ("gcp:sgd", "seed-sparse"), ("gcp:adam", "seed-sparse"), ("gcp:lbfgsb", "reused-optimizer"), ("gcp:adam", "reused-optimizer"),
    ("gcp:lbfgsb", "relabel"), ("gcp:lbfgsb", "relabel4"), ("cp_als", "relabel4"),
    ("gcp:lbfgsb", "guess-form"), ("gcp:adam", "guess-form"),
]
# four-way shapes for the relabelling relation: a dominant first / last / interior mode moves the split of the all-modes MTTKRP (GCP
# gradients) so that two or more modes fall into one partial product; interior modes of a 4-way dense MTTKRP (CP-ALS)
SHAPES4 = [[9, 2, 2, 3], [2, 2, 9, 9], [4, 3, 2, 5], [2, 8, 3, 2], [3, 2, 2, 7], [3, 3, 3, 3]]


def nontrivial(case):
    return True


def gen_cases(tier, seed):
    rng = gen.rng_for(seed, ID, tier)
    cs = itertools.count(1)
    reps = 4 if tier == "quick" else 40
    for rep_i in range(reps):
        for alg, rel in RELATIONS:
            # a random stream per (repetition, algorithm, relation): adding a relation does not move the inputs of the others
            rng = gen.rng_for(seed, ID, tier, rep_i, alg, rel)
            N = 3 if rel == "relabel" else int(rng.integers(3, 5))
            shp = [int(s) for s in rng.integers(3, 6, size=N)]
            if rel == "relabel4":
                continue
            yield {"w": "pair", "alg": alg, "rel": rel, "shape": shp, "R": 2, "zero_guess": bool(rep_i % 2),
                   "gseed": int(rng.integers(0, 2 ** 31)), "cseed": zlib.crc32(f"{seed}/{rep_i}/{alg}/{rel}".encode()) % (2 ** 31)}
    # guesses with an all-zero factor row (the model is zero on a slice that holds counts): every CP-APR algorithm, dense vs sparse
    for rep_i in range(3 if tier == "quick" else 12):
        for alg in ("cp_apr:mu", "cp_apr:pdnr"):
            rng = gen.rng_for(seed, ID, tier, rep_i, alg, "zero-row")
            shp = [int(s) for s in rng.integers(3, 6, size=3)]
            yield {"w": "pair", "alg": alg, "rel": "dense-sparse", "shape": shp, "R": 2, "zero_guess": True, "zero_row": True,
                   "gseed": int(rng.integers(0, 2 ** 31)), "cseed": zlib.crc32(f"{seed}/{rep_i}/{alg}/zero-row".encode()) % (2 ** 31)}
    rng = gen.rng_for(seed, ID, tier, "four-way")
    for shp in SHAPES4:
        for alg in ("gcp:lbfgsb", "cp_als"):
            yield {"w": "pair", "alg": alg, "rel": "relabel4", "shape": list(shp), "R": 2, "zero_guess": False,
                   "gseed": int(rng.integers(0, 2 ** 31)), "cseed": int(seed) * 217645177 % (2 ** 31) + next(cs)}


def _quiet(f, *a, **k):
    with contextlib.redirect_stdout(io.StringIO()):
        import warnings

        with warnings.catch_warnings():
            warnings.simplefilter("ignore")
            return f(*a, **k)


def _cmp(ctx, op, a, b, what, exact=False, sens=None, **f):
    """sens: optional callable returning results of the *same* presentation as `a` re-run from a starting guess perturbed in the last
    bits.  "Equal up to rounding" is decidable only for runs that are themselves stable under rounding: if the run's own rounding
    sensitivity is of the size of the observed difference the case is tagged and not judged."""
    a, b = np.asarray(a, dtype=float), np.asarray(b, dtype=float)
    if a.shape != b.shape:
        ctx.check(False, op, "DIFFERS", f"{what}: shapes {a.shape} vs {b.shape}", **f)
        return
    if exact:
        ctx.check(bool(np.array_equal(a, b)), op, "DIFFERS", lambda: f"{what}: not bit-identical, max diff {np.max(np.abs(a - b))!r}", **f)
        return
    sc = max(float(np.max(np.abs(a))), 1e-300)
    d = float(np.max(np.abs(a - b))) / sc
    if d > TOL and sens is not None:
        # (24 perturbed re-runs: a run that flips a branch under some last-bit perturbations does so for a fraction of them only -
        # a pqnr case flipped for 5 of 40)
        ds = max(float(np.max(np.abs(a - np.asarray(p, dtype=float)))) / sc for p in sens(24))
        if ds >= 0.05 * d:
            ctx.tag("rounding-unstable-run(not judged)")
            return
    ctx.check(d <= TOL, op, "DIFFERS", lambda: f"{what}: relative difference {d:.3e} > {TOL}", **f)


def run_case(case, ctx):
    rng = np.random.default_rng(case["cseed"])
    shape = tuple(case["shape"])
    N, R = len(shape), case["R"]
    alg, rel = case["alg"], case["rel"]
    ctx.feat(alg=alg, rel=rel)
    Kt = ttb.ktensor([rng.random((s, 3)) for s in shape], rng.random(3) + 0.5)
    X = denote(Kt) + 0.05 * rng.standard_normal(shape)
    T = ttb.tensor(X.copy())
    gs = case["gseed"]

    def seeded(f, *a, **k):
        np.random.seed(gs)
        return _quiet(f, *a, **k)

    perms = [np.array(p) for p in itertools.permutations(range(N))] if N == 3 else []
    if rel == "relabel4":
        allp = [np.array(p) for p in itertools.permutations(range(N))][1:]
        perms = [allp[int(i)] for i in rng.choice(len(allp), size=4, replace=False)] + [np.arange(N)[::-1].copy()]
        rel = "relabel"
    if alg == "cp_als":
        op = "cp_als"
        kw = dict(maxiters=5, stoptol=0)
        if rel == "print":
            base = seeded(ttb.cp_als, T, R, printitn=0, **kw)
            for pr in (1, 2, 5):
                o = seeded(ttb.cp_als, T, R, printitn=pr, **kw)
                _cmp(ctx, op, denote(base[0]), denote(o[0]), f"printitn=0 vs {pr}", printitn=pr)
                ctx.check(abs(base[2]["fit"] - o[2]["fit"]) <= 1e-8, op, "DIFFERS", f"fit differs with printitn={pr}", what="fit")
            # ... also when only some modes are optimised (the last mode of the order among the fixed ones)
            od = sorted(int(x) for x in rng.permutation(N)[: N - 1])
            do_ = [d for d in range(N) if d in od] + [d for d in range(N) if d not in od]
            Mg = ttb.ktensor([rng.random((s_, R)) for s_ in shape])
            base = _quiet(ttb.cp_als, T, R, init=Mg.copy(), printitn=0, optdims=od, dimorder=do_, **kw)
            for pr in (1, 3):
                o = _quiet(ttb.cp_als, T, R, init=Mg.copy(), printitn=pr, optdims=od, dimorder=do_, **kw)
                _cmp(ctx, op, denote(base[0]), denote(o[0]), f"optdims={od}: printitn=0 vs {pr}", printitn=pr, optdims=True)
                ctx.check(abs(base[2]["fit"] - o[2]["fit"]) <= 1e-8, op, "DIFFERS", f"optdims={od}: fit {base[2]['fit']!r} vs {o[2]['fit']!r} with printitn={pr}", what="fit",
                          optdims=True)
        elif rel == "seed":
            a = seeded(ttb.cp_als, T, R, printitn=0, **kw)
            b = seeded(ttb.cp_als, T, R, printitn=0, **kw)
            _cmp(ctx, op, denote(a[0]), denote(b[0]), "same seed twice", exact=True)
        elif rel == "scale":
            base = seeded(ttb.cp_als, T, R, printitn=0, **kw)
            for c in (2.0, 0.5, 3.7, 2.0 ** -12, 1e-6, 1e-9, 1e7):
                o = seeded(ttb.cp_als, ttb.tensor(X * c), R, printitn=0, **kw)
                _cmp(ctx, op, c * denote(base[0]), denote(o[0]), f"data scaled by {c}", scale=c)
                ctx.check(abs(base[2]["fit"] - o[2]["fit"]) <= 1e-8, op, "DIFFERS", f"fit changed under scaling by {c}", what="fit")
        elif rel == "dense-sparse":
            Xf = X * (rng.random(shape) < 0.7)
            M0 = ttb.ktensor([rng.random((s, R)) for s in shape])
            # float data, and count-like data held in an integer element type (dense and sparse)
            for Xs in (Xf, np.round(np.abs(Xf) * 6.0).astype([np.int64, np.int32][gen.pick(case) % 2])):
                ctx.feat(data_type=str(Xs.dtype))
                a = _quiet(ttb.cp_als, ttb.tensor(Xs.copy()), R, init=M0.copy(), printitn=0, **kw)
                S = gen.mk_sptensor(ttb, Xs, gen.stored_order(rng, int(np.count_nonzero(Xs)), "shuffled"), dtype=(Xs.dtype if Xs.dtype != float else None))
                b = _quiet(ttb.cp_als, S, R, init=M0.copy(), printitn=0, **kw)
                _cmp(ctx, op, denote(a[0]), denote(b[0]), "dense vs sparse data")
                if Xs.dtype != float:
                    c_ = _quiet(ttb.cp_als, ttb.tensor(Xs.astype(float)), R, init=M0.copy(), printitn=0, **kw)
                    _cmp(ctx, op, denote(a[0]), denote(c_[0]), "integer-typed vs float-typed dense data", which="dtype")
            ctx.feat(data_type=None)
        else:
            M0 = ttb.ktensor([rng.random((s, R)) for s in shape])
            do = [1, 2, 0] if N == 3 else [2, 0, 3, 1]
            base = _quiet(ttb.cp_als, T, R, init=M0.copy(), printitn=0, dimorder=do, **kw)
            for p in perms:
                inv = np.argsort(p)
                o = _quiet(ttb.cp_als, T.permute(p), R, init=M0.copy().permute(p), printitn=0, dimorder=[int(inv[d]) for d in do], **kw)
                _cmp(ctx, op, np.transpose(denote(base[0]), p), denote(o[0]), f"modes relabelled by {p.tolist()}")
    elif alg == "hosvd":
        op = "hosvd"
        if rel == "print":
            base = _quiet(ttb.hosvd, T, 0.3, verbosity=0)
            for vb in (1, 3, 10):
                _cmp(ctx, op, denote(base), denote(_quiet(ttb.hosvd, T, 0.3, verbosity=vb)), f"verbosity 0 vs {vb}", verbosity=vb)
        elif rel == "scale":
            base = _quiet(ttb.hosvd, T, 0.3, verbosity=0)
            for c in (2.0, 0.25, 3.7, 2.0 ** -12, 2.0 ** 10, 1e-7, 1e-10, 1e8):
                o = _quiet(ttb.hosvd, ttb.tensor(X * c), 0.3, verbosity=0)
                _cmp(ctx, op, c * denote(base), denote(o), f"data scaled by {c}", scale=c)
                ctx.check(tuple(o.core.shape) == tuple(base.core.shape), op, "DIFFERS", "ranks changed under scaling", what="ranks")
        else:
            do = [2, 0, 1]
            base = _quiet(ttb.hosvd, T, 0.3, verbosity=0, dimorder=do)
            for p in perms:
                inv = np.argsort(p)
                o = _quiet(ttb.hosvd, T.permute(p), 0.3, verbosity=0, dimorder=[int(inv[d]) for d in do])
                _cmp(ctx, op, np.transpose(denote(base), p), denote(o), f"modes relabelled by {p.tolist()}")
            # ... and with prescribed, unequal ranks (relabelled together with the modes)
            rk_ = np.array([min(s_, r_) for s_, r_ in zip(shape, (3, 1, 2))])
            base = _quiet(ttb.hosvd, T, 0.3, verbosity=0, dimorder=do, ranks=rk_.copy())
            for p in perms:
                inv = np.argsort(p)
                o = _quiet(ttb.hosvd, T.permute(p), 0.3, verbosity=0, dimorder=[int(inv[d]) for d in do], ranks=rk_[p].copy())
                ctx.check(tuple(o.core.shape) == tuple(int(x) for x in rk_[p]), op, "DIFFERS", f"relabelled ranks {rk_[p].tolist()} give core {tuple(o.core.shape)}", what="ranks")
                _cmp(ctx, op, np.transpose(denote(base), p), denote(o), f"modes (and prescribed ranks) relabelled by {p.tolist()}", ranks="given")
    elif alg == "tucker_als":
        op = "tucker_als"
        rk = [2] * N
        kw = dict(maxiters=4, stoptol=0)
        if rel == "print":
            base = seeded(ttb.tucker_als, T, rk, printitn=0, **kw)
            for pr in (1, 3):
                o = seeded(ttb.tucker_als, T, rk, printitn=pr, **kw)
                _cmp(ctx, op, denote(base[0]), denote(o[0]), f"printitn 0 vs {pr}", printitn=pr)
        elif rel == "seed":
            a = seeded(ttb.tucker_als, T, rk, printitn=0, **kw)
            b = seeded(ttb.tucker_als, T, rk, printitn=0, **kw)
            _cmp(ctx, op, denote(a[0]), denote(b[0]), "same seed twice")
        elif rel == "scale":
            base = seeded(ttb.tucker_als, T, rk, printitn=0, **kw)
            for c in (2.0, 3.7, 1e-6, 1e-9, 1e7):
                o = seeded(ttb.tucker_als, ttb.tensor(X * c), rk, printitn=0, **kw)
                _cmp(ctx, op, c * denote(base[0]), denote(o[0]), f"data scaled by {c}", scale=c)
                ctx.check(abs(base[2]["fit"] - o[2]["fit"]) <= 1e-8, op, "DIFFERS", f"fit changed under scaling by {c}", what="fit")
        else:
            U0 = [rng.random((s, 2)) for s in shape]
            do = [1, 2, 0]
            base = _quiet(ttb.tucker_als, T, rk, printitn=0, init=[u.copy() for u in U0], dimorder=do, **kw)
            for p in perms:
                inv = np.argsort(p)
                o = _quiet(ttb.tucker_als, T.permute(p), rk, printitn=0, init=[U0[i].copy() for i in p], dimorder=[int(inv[d]) for d in do], **kw)
                _cmp(ctx, op, np.transpose(denote(base[0]), p), denote(o[0]), f"modes relabelled by {p.tolist()}")
    elif alg.startswith("cp_apr"):
        sub = alg.split(":")[1]
        op = "cp_apr"
        ctx.feat(sub=sub)
        Xc = rng.poisson(denote(Kt) * 3).astype(float)
        variant = [None, "empty-slice", "empty-slice+warm", "warm"][gen.pick(case) % 4] if not case.get("zero_guess") else None
        if variant and "empty-slice" in variant:
            # slices without any count: the sparse code paths never see them, the dense ones do
            Xc[0] = 0
            Xc[:, -1] = 0
        Tc = ttb.tensor(Xc.copy())
        M0 = ttb.ktensor([rng.random((s, R)) + 0.1 for s in shape])
        kw = dict(algorithm=sub, maxiters=3, printinneritn=0)
        if variant and "warm" in variant:
            # a warm start: the result of an earlier, longer run on the same data (small KKT violations from the first iteration on)
            try:
                M0 = _quiet(ttb.cp_apr, Tc, R, init=M0.copy(), printitn=0, algorithm=sub, maxiters=12, printinneritn=0)[0]
            except AssertionError:
                pass
            kw["maxiters"] = 8
        ctx.feat(variant=str(variant))
        if case.get("zero_guess"):
            # inadmissible zeros in the first factor of the guess and a longer run: exercises the zero-repair step
            F0 = M0.factor_matrices[0]
            whole_row = bool((gen.pick(case) // 4) % 2 == 0) or bool(case.get("zero_row"))      # every component zero in one row: the model is zero on that whole slice
            row0 = int(rng.integers(0, F0.shape[0]))
            for r_ in range(R):
                F0[row0 if whole_row else int(rng.integers(0, F0.shape[0])), r_] = 0.0
            ctx.feat(zero_row=whole_row)
            M0.weights[:] = np.round(rng.uniform(5.0, 30.0, size=R), 2)
            kw["maxiters"] = 25
            kw["stoptol"] = 1e-6
            ctx.feat(zero_guess=True)
        try:
            if rel == "dense-sparse":
                a = _quiet(ttb.cp_apr, Tc, R, init=M0.copy(), printitn=0, **kw)
                Sc = gen.mk_sptensor(ttb, Xc, gen.stored_order(rng, int(np.count_nonzero(Xc)), "shuffled"))
                b = _quiet(ttb.cp_apr, Sc, R, init=M0.copy(), printitn=0, **kw)

                def sens(nper=3):
                    out = []
                    for k in range(nper):
                        Mp = M0.copy()
                        prng = np.random.default_rng(case["cseed"] + 7919 * (k + 1))
                        for i_, fm in enumerate(Mp.factor_matrices):
                            Mp.factor_matrices[i_] = fm * (1.0 + 2.0 ** -50 * prng.integers(-2, 3, size=fm.shape))
                        out.append(denote(_quiet(ttb.cp_apr, Tc, R, init=Mp, printitn=0, **kw)[0]))
                    return out
                _cmp(ctx, op, denote(a[0]), denote(b[0]), "dense vs sparse data", sens=sens)
            elif rel == "print":
                a = _quiet(ttb.cp_apr, Tc, R, init=M0.copy(), printitn=0, **kw)
                for pr in (1, 2, 7):
                    b = _quiet(ttb.cp_apr, Tc, R, init=M0.copy(), printitn=pr, **kw)
                    _cmp(ctx, op, denote(a[0]), denote(b[0]), f"printitn 0 vs {pr}", printitn=pr)
                # ... also when the run ends on its time budget (spent after the first sweep) rather than on the iteration limit
                kwt = dict(kw, stoptime=-1.0, maxiters=max(6, kw["maxiters"]))
                a = _quiet(ttb.cp_apr, Tc, R, init=M0.copy(), printitn=0, **kwt)
                one = _quiet(ttb.cp_apr, Tc, R, init=M0.copy(), printitn=0, **dict(kw, maxiters=1))
                _cmp(ctx, op, denote(one[0]), denote(a[0]), "time budget spent after one sweep vs iteration limit 1 (printitn 0)", exit="time")
                for pr in (1, 3):
                    b = _quiet(ttb.cp_apr, Tc, R, init=M0.copy(), printitn=pr, **kwt)
                    _cmp(ctx, op, denote(a[0]), denote(b[0]), f"time budget spent: printitn 0 vs {pr}", printitn=pr, exit="time")
            else:
                a = seeded(ttb.cp_apr, Tc, R, printitn=0, **kw)
                b = seeded(ttb.cp_apr, Tc, R, printitn=0, **kw)
                _cmp(ctx, op, denote(a[0]), denote(b[0]), "same seed twice", exact=True)
        except AssertionError as e:
            if sub == "pqnr" and "L-BFGS first iterate is bad" in str(e):
                ctx.tag("pqnr-aborted(C11-K1)")
                return
            raise
    else:
        sub = alg.split(":")[1]
        op = "gcp_opt"
        ctx.feat(sub=sub)

        def mk():
            if sub == "lbfgsb":
                return LBFGSB(maxiter=5)
            if sub == "adam":
                return Adam(rate=1e-3, epoch_iters=3, max_iters=3, printitn=0)
            return SGD(rate=1e-3, epoch_iters=3, max_iters=3, printitn=0)
        if rel == "reused-optimizer":
            # the optimizer object is an option like any other: what it solved before does not matter
            opt_used, opt_fresh = mk(), mk()
            if sub == "lbfgsb":
                opt_used, opt_fresh = LBFGSB(maxiter=300), LBFGSB(maxiter=300)
            other_shape = tuple(int(x) for x in rng.integers(6, 9, size=3)) if gen.pick(case) % 2 else (2, 2)
            Kt2 = ttb.ktensor([rng.random((s_, 2)) for s_ in other_shape])
            seeded(ttb.gcp_opt, ttb.tensor(denote(Kt2) + 0.05 * rng.standard_normal(other_shape)), 2, Objectives.GAUSSIAN, opt_used, printitn=0)
            M0g = ttb.ktensor([rng.random((s_, R)) for s_ in shape])
            a = seeded(ttb.gcp_opt, T, R, Objectives.GAUSSIAN, opt_used, init=M0g.copy(), printitn=0)
            b = seeded(ttb.gcp_opt, T, R, Objectives.GAUSSIAN, opt_fresh, init=M0g.copy(), printitn=0)
            _cmp(ctx, op, denote(a[0]), denote(b[0]), "optimizer object used before vs fresh optimizer object", exact=True, other=("larger" if gen.pick(case) % 2 else "smaller"))
        elif rel == "guess-form":
            # the same starting guess handed over as a Kruskal tensor, as a list and as a tuple of its factor matrices
            fm0 = [rng.random((s_, R)) * float(rng.choice([0.2, 1.0, 5.0])) for s_ in shape]
            a = seeded(ttb.gcp_opt, T, R, Objectives.GAUSSIAN, mk(), init=ttb.ktensor([f.copy() for f in fm0]), printitn=0)
            for form in ("list", "tuple"):
                g_ = [f.copy() for f in fm0] if form == "list" else tuple(f.copy() for f in fm0)
                b = seeded(ttb.gcp_opt, T, R, Objectives.GAUSSIAN, mk(), init=g_, printitn=0)
                _cmp(ctx, op, denote(a[0]), denote(b[0]), f"guess as a Kruskal tensor vs as a {form} of matrices", exact=True, form=form)
                same_start = all(np.array_equal(x_, y_) for x_, y_ in zip(a[1].factor_matrices, b[1].factor_matrices)) and np.array_equal(a[1].weights, b[1].weights)
                ctx.check(same_start, op, "DIFFERS", f"the returned starting guess differs between the Kruskal and the {form} form", which="guess", form=form)
        elif rel == "seed-sparse":
            # sparse data and a sampler that takes fewer nonzeros / zeros than there are: every random draw of the run (starting guess,
            # sampled nonzeros, sampled zeros) must come from the global stream the seed controls
            from pyttb.gcp.samplers import GCPSampler, Samplers, StratifiedCount

            Xs = np.where(rng.random(shape) < 0.5, np.round(np.abs(X) * 4 + 1), 0.0)
            S = gen.mk_sptensor(ttb, Xs, gen.stored_order(rng, int(np.count_nonzero(Xs)), "shuffled"))
            nnz = int(S.nnz)
            kind = [Samplers.STRATIFIED, Samplers.SEMISTRATIFIED][gen.pick(case) % 2]
            ctx.feat(sampler=kind.name)

            def smp():
                k = max(1, nnz // 3)
                return GCPSampler(S, function_sampler=Samplers.STRATIFIED, function_samples=StratifiedCount(max(1, nnz // 2), max(1, nnz // 2)),
                                  gradient_sampler=kind, gradient_samples=StratifiedCount(k, k))
            a = seeded(ttb.gcp_opt, S, R, Objectives.GAUSSIAN, mk(), sampler=smp(), printitn=0)
            b = seeded(ttb.gcp_opt, S, R, Objectives.GAUSSIAN, mk(), sampler=smp(), printitn=0)
            _cmp(ctx, op, denote(a[0]), denote(b[0]), "same seed twice (sparse data, subsampled nonzeros)", exact=True)
            _cmp(ctx, op, denote(a[1]), denote(b[1]), "same seed twice: starting guess", exact=True, which="guess")
        elif rel == "relabel":
            # all mode gradients are computed at once and the variables are updated together, so the run is the same up to rounding
            # under any consistent relabelling of data and guess
            M0g = ttb.ktensor([rng.random((s_, R)) for s_ in shape])
            base = _quiet(ttb.gcp_opt, T, R, Objectives.GAUSSIAN, LBFGSB(maxiter=4), init=M0g.copy(), printitn=0)

            def sens(nper=3):
                out = []
                for k in range(nper):
                    Mp = M0g.copy()
                    prng = np.random.default_rng(case["cseed"] + 7919 * (k + 1))
                    for i_, fm in enumerate(Mp.factor_matrices):
                        Mp.factor_matrices[i_] = fm * (1.0 + 2.0 ** -50 * prng.integers(-2, 3, size=fm.shape))
                    out.append(denote(_quiet(ttb.gcp_opt, T, R, Objectives.GAUSSIAN, LBFGSB(maxiter=4), init=Mp, printitn=0)[0]))
                return out
            for p in perms:
                if np.array_equal(p, np.arange(N)):
                    continue
                o = _quiet(ttb.gcp_opt, T.permute(p), R, Objectives.GAUSSIAN, LBFGSB(maxiter=4), init=M0g.copy().permute(p), printitn=0)
                _cmp(ctx, op, np.transpose(denote(base[0]), p), denote(o[0]), f"modes relabelled by {p.tolist()}", sens=sens, N=N)
        elif rel == "print":
            a = seeded(ttb.gcp_opt, T, R, Objectives.GAUSSIAN, mk(), printitn=0)
            b = seeded(ttb.gcp_opt, T, R, Objectives.GAUSSIAN, mk(), printitn=1)
            _cmp(ctx, op, denote(a[0]), denote(b[0]), "printitn 0 vs 1", exact=(sub != "lbfgsb"))
            if sub == "lbfgsb":
                # with missing entries (a mask) and a random start: the start is scaled to the norm of the observed data whatever is printed
                Wm = (rng.random(shape) < 0.75).astype(float)
                Wm[tuple(int(x) for x in np.argwhere(np.abs(X) == np.max(np.abs(X)))[0])] = 0.0          # a large entry is missing
                for mform in ("tensor",):
                    am = seeded(ttb.gcp_opt, T.copy(), R, Objectives.GAUSSIAN, mk(), mask=ttb.tensor(Wm.copy()), printitn=0)
                    bm = seeded(ttb.gcp_opt, T.copy(), R, Objectives.GAUSSIAN, mk(), mask=ttb.tensor(Wm.copy()), printitn=1)
                    _cmp(ctx, op, denote(am[1]), denote(bm[1]), "masked data, printitn 0 vs 1: starting guess", exact=True, which="guess", masked=True)
                    _cmp(ctx, op, denote(am[0]) * Wm, denote(bm[0]) * Wm, "masked data, printitn 0 vs 1: fitted observed entries", masked=True)
        else:
            a = seeded(ttb.gcp_opt, T, R, Objectives.GAUSSIAN, mk(), printitn=0)
            b = seeded(ttb.gcp_opt, T, R, Objectives.GAUSSIAN, mk(), printitn=0)
            _cmp(ctx, op, denote(a[0]), denote(b[0]), "same seed twice", exact=True)
