"""C04 -- entry reads and writes behave like an F-ordered mutable array over any history.

Lock-step histories: a dense tensor, a sparse tensor and an executable model (NumPy array with explicit zero-padding
growth and first-index-fastest linear indexing) are driven by the same sequence of reads and writes; after every
write both holders are expanded from raw state and compared exactly with the model, every read is compared exactly.
"""
import itertools
import json

import numpy as np

from .. import load
from .. import gen, refops
from ..core import Ctx
from ..denote import denote, same, kind, DenoteError
from ..wellformed import wellformed

np_, ttb = load()
ID = "C04"
RULE = ("case = one history: start state (void / zeros / random dense / random sparse stored in shuffled order) + up to 8 (quick) / 25 "
        "(thorough) operations drawn from reads and writes by full subscripts (non-negative, negative), p x N subscript arrays, linear "
        "indices (int, array, slice, list), regions mixing ints / bounded and unbounded slices / index lists, right-hand sides scalar, zero, "
        "arrays mixing zero and non-zero, tensors / sparse tensors, growth in extent and order; forced corners (out-of-order existing entry, "
        "first-value-zero batches, change+delete+insert batches); non-trivial = history has >= 2 operations incl. a write; distinct = hash")
ANCHORS = [
    "pyttb_utils:get_index_variant", "tensor:tensor.__getitem__", "tensor:tensor.__setitem__", "tensor:tensor._set_linear",
    "tensor:tensor._set_subtensor", "tensor:tensor._set_subscripts", "sptensor:sptensor.__getitem__", "sptensor:sptensor.__setitem__",
    "sptensor:sptensor._set_subscripts", "sptensor:sptensor._set_subtensor", "sptensor:sptensor.extract", "sptensor:sptensor.subdims",
    "pyttb_utils:tt_renumber", "pyttb_utils:tt_irenumber", "pyttb_utils:tt_ind2sub",
]
THOROUGH_PASSES = 2     # the thorough generator of this property is already minutes long
WATCHDOG = {"quick": 900, "thorough": 3400}
VALS = [0.0, 0.0, 1.0, 2.0, -1.0, 3.5, 7.0]


def nontrivial(case):
    if case.get("w") == "large":
        return True
    ops = case["ops"]
    return len(ops) >= 2 and any(o["k"].startswith("set") for o in ops)


# ------------------------------------------------------------------ model ---------------------
class Model:
    def __init__(self, A=None):
        self.M = None if A is None else np.array(A, dtype=float)

    @property
    def shape(self):
        return () if self.M is None else self.M.shape

    def grow(self, need):
        """Zero-pad to at least `need` (may add trailing modes)."""
        need = [int(x) for x in need]
        cur = list(self.shape)
        while len(cur) < len(need):
            cur.append(1)
        new = [max(c, n) for c, n in zip(cur, need + [1] * (len(cur) - len(need)))]
        out = np.zeros(new)
        if self.M is not None:
            old = self.M.reshape(list(self.M.shape) + [1] * (len(new) - self.M.ndim))
            out[tuple(slice(0, s) for s in old.shape)] = old
        self.M = out


def _key_elem(e):
    if isinstance(e, dict):
        if "s" in e:
            return slice(*e["s"])
        if "l" in e:
            return list(e["l"])
        if "a" in e:
            return np.array(e["a"], dtype=int)
    return int(e)


def _need(key, rhs_shape=None, cur=()):
    """Extent each mode must have for a write with this key (cur = current shape: an open-ended slice on an existing mode covers
    exactly the current extent and never grows it; only in a new mode does it take the right-hand side's extent)."""
    need = []
    m = 0
    for n, e in enumerate(key):
        if isinstance(e, slice):
            if e.step is not None and e.step < 0:
                # a downward slice reaches at most its start (existing modes: never beyond the current extent)
                need.append(cur[n] if n < len(cur) else (e.start + 1 if (e.start is not None and e.start >= 0) else 1))
            elif e.stop is not None and e.stop >= 0:
                need.append(e.stop)
            elif n < len(cur):
                need.append(cur[n])
            else:
                need.append(rhs_shape[m] if (rhs_shape is not None and m < len(rhs_shape)) else 1)
            m += 1
        elif isinstance(e, (list, np.ndarray)):
            need.append(max(int(max(e)) + 1, 1))
            m += 1
        else:
            need.append(e + 1 if e >= 0 else 1)
    return need


def _from_end(key, shape):
    out = []
    for n, e in enumerate(key):
        I = shape[n] if n < len(shape) else None
        if I is None:
            out.append(e)
        elif isinstance(e, slice) and e.step is not None and e.step < 0:
            # downward: a stop that underflows means "down to position 0 inclusive" (no non-negative stop says that)
            a = e.start if (e.start is None or e.start >= 0) else e.start + I
            b = e.stop if (e.stop is None or e.stop >= 0) else (e.stop + I if e.stop + I >= 0 else None)
            out.append(slice(a, b, e.step) if (a is None or a >= 0) else slice(0, 0, None))
        elif isinstance(e, slice):
            a = e.start if (e.start is None or e.start >= 0) else max(e.start + I, 0)
            b = e.stop if (e.stop is None or e.stop >= 0) else max(e.stop + I, 0)
            out.append(slice(a, b, e.step))
        elif isinstance(e, (list, np.ndarray)):
            out.append([int(v) + I if int(v) < 0 else int(v) for v in e])
        else:
            out.append(int(e) + I if int(e) < 0 else int(e))
    return out


def _has_negative(key):
    for e in key:
        if isinstance(e, dict):
            if "s" in e and any(v is not None and v < 0 for v in e["s"][:2]):
                return True
            if ("l" in e or "a" in e) and any(int(v) < 0 for v in e.get("l", e.get("a"))):
                return True
        elif isinstance(e, (int, np.integer)) and e < 0:
            return True
    return False


def _resolve(key, shape):
    """Per-mode index arrays (for np.ix_) and which modes are kept (non-int)."""
    idx, keep = [], []
    for n, e in enumerate(key):
        I = shape[n]
        if isinstance(e, slice):
            idx.append(np.arange(I)[e])
            keep.append(True)
        elif isinstance(e, (list, np.ndarray)):
            ee = np.asarray(e, dtype=int)
            idx.append(np.where(ee < 0, ee + I, ee))
            keep.append(True)
        else:
            idx.append(np.array([e if e >= 0 else I + e]))
            keep.append(False)
    return idx, keep


# ------------------------------------------------------------------ history generation -------
def _rand_key(rng, shape, write, grow_p=0.25, forms=("int", "int", "int", "int", "slice", "slice", "slice", "slice", "slice", "list")):
    N = len(shape)
    key = []
    nlist = 0
    for n in range(N):
        I = shape[n]
        f = forms[int(rng.integers(0, len(forms)))]
        if f == "int":
            if write and rng.random() < grow_p:
                key.append(int(I + rng.integers(0, 2)))
            elif rng.random() < 0.25:
                key.append(-int(rng.integers(1, I + 1)))
            else:
                key.append(int(rng.integers(0, I)))
        elif f == "slice":
            c = int(rng.integers(0, 6))
            if c == 5:
                # strided slices (spans that are / are not a multiple of the step), reversed ones
                step = int(rng.choice([2, 2, 3, -1, -2]))
                if step > 0:
                    a = None if rng.random() < 0.5 else int(rng.integers(0, I))
                    b = None if rng.random() < 0.5 else int(rng.integers((a or 0) + 1, I + 1))
                elif rng.random() < 0.5:
                    a, b = None, None
                else:
                    # a downward slice with explicit bounds, possibly underflowing (it then runs down to position 0 inclusive) or
                    # starting below the extent (an empty region)
                    a = [I - 1, max(0, I - 2), -1, None][int(rng.integers(0, 4))]
                    b = [None, 0, -I - 1, -I - 3][int(rng.integers(0, 4))]
                    if len(range(*slice(a, b, step).indices(I))) == 0:
                        b = None                                  # (never an empty region: zero-size results have no representation)
                key.append({"s": [a, b, step]})
            elif c == 0:
                key.append({"s": [None, None, None]})
            elif c == 1:
                a = int(rng.integers(0, I))
                b = int(rng.integers(a + 1, I + 1 + (2 if (write and rng.random() < grow_p) else 0)))
                key.append({"s": [a, b, None if rng.random() < 0.7 else 1]})
            elif c == 2:
                key.append({"s": [int(rng.integers(0, I)), None, None]})
            elif c == 3:
                key.append({"s": [None, int(rng.integers(1, I + 1)), None]})
            else:
                if I >= 2 and write and rng.random() < grow_p:
                    # a start counted from the end and a stop past the extent: the write grows the mode from that start on
                    # (the step left out, written out as 1, or 2: the same rule for the start)
                    key.append({"s": [-int(rng.integers(1, I + 1)), int(I + rng.integers(1, 3)), [None, 1, 2, 1][int(rng.integers(0, 4))]]})
                elif I >= 2 and rng.random() < 0.3:
                    # bounds that overshoot the extent from the end are clamped to the beginning (NumPy slice semantics)
                    key.append({"s": [[-I - 2, None, None], [-I - 1, max(1, I - 1), None], [-I - 3, -1, None], [None, -1, None]][int(rng.integers(0, 4))]})
                elif I >= 2:
                    # bounds counted from the end (reads and writes)
                    key.append({"s": [[None, -1, None], [-1, None, None], [-I, -1, None], [-2, None, None]][int(rng.integers(0, 4))]})
                else:
                    key.append({"s": [None, None, None]})
        else:
            k = int(rng.integers(1, min(3, I) + 1))
            vals = [int(x) for x in rng.choice(I, size=k, replace=False)]
            if I >= 3 and rng.random() < 0.35:
                # a run of consecutive positions in another order (sometimes with only the interior re-ordered)
                L = int(rng.integers(3, I + 1))
                lo = int(rng.integers(0, I - L + 1))
                run = list(range(lo, lo + L))
                if L >= 4 and rng.random() < 0.5:
                    mid = [run[j] for j in rng.permutation(np.arange(1, L - 1))]
                    vals = [run[0]] + [int(x) for x in mid] + [run[-1]]
                else:
                    vals = [int(run[j]) for j in rng.permutation(L)]
            if not write and rng.random() < 0.3:
                # reads may name a position more than once (every occurrence reads it)
                vals = vals + [vals[int(rng.integers(0, len(vals)))] for _ in range(int(rng.integers(1, 3)))]
                vals = [vals[j] for j in rng.permutation(len(vals))]
            if write and rng.random() < grow_p:
                vals[-1] = int(I)
                if len(vals) >= 2 and rng.random() < 0.4:
                    vals[0] = vals[0] - I                                            # ... and one counted from the end in the same list
            elif rng.random() < 0.25:
                vals = [v - I if rng.random() < 0.5 else v for v in vals]           # some entries counted from the end
            # the list as a Python list or as an integer ndarray
            key.append({"l": vals} if rng.random() < 0.65 else {"a": vals})
            nlist += 1
    return key


def _gen_history(rng, tier, forced=None):
    start = ["zeros", "dense", "sparse", "void", "sparse"][int(rng.integers(0, 5))]
    N = int(rng.integers(1, 4))
    shape = gen.rand_shape(rng, N, 1, 4)
    if N <= 2 and rng.random() < 0.25:
        shape = tuple(int(x) for x in rng.integers(4, 7, size=N))       # modes long enough for index lists of four to six positions
    if start == "void":
        init = None
        model = Model(None)
    elif start == "zeros":
        init = np.zeros(shape)
        model = Model(init)
    else:
        init = gen.sparsify(rng, rng.choice([1.0, 2.0, -1.0, 3.5], size=shape), "some" if start == "sparse" else "all")
        if start == "dense":
            init = np.where(rng.random(shape) < 0.2, 0.0, init)
        model = Model(init)
    maxlen = 8 if tier == "quick" else 25
    L = int(rng.integers(2, maxlen + 1))
    ops = []
    for step in range(L):
        shape_now = model.shape
        if len(shape_now) == 0:
            # void: first op must create the tensor
            N0 = int(rng.integers(1, 4))
            c = int(rng.integers(0, 3))
            if c == 0:
                op = {"k": "set_full", "idx": [int(x) for x in rng.integers(0, 3, size=N0)], "v": float(rng.choice(VALS[2:]))}
            elif c == 1:
                p = int(rng.integers(1, 4))
                subs = np.unique(rng.integers(0, 3, size=(p, N0)), axis=0)
                subs = subs[rng.permutation(subs.shape[0])]
                op = {"k": "set_subs", "subs": subs.tolist(), "vals": float(rng.choice(VALS[2:]))}
            else:
                op = {"k": "set_region", "key": [{"s": [0, int(rng.integers(1, 4)), None]} for _ in range(N0)], "rhs": "scalar",
                      "v": float(rng.choice(VALS[2:]))}
        else:
            op = _rand_op(rng, shape_now, model)
        ops.append(op)
        _apply_model(model, op)
        if model.M is not None and model.M.size > 400:
            break
    return {"start": start, "init": None if init is None else init.tolist(), "shape": list(shape) if init is not None else [],
            "ops": ops}


def _rand_op(rng, shape, model):
    N = len(shape)
    size = int(np.prod(shape))
    c = rng.random()
    if c < 0.10:
        return {"k": "get_full", "idx": [int(rng.integers(-I, I)) for I in shape]}
    if c < 0.22:
        return {"k": "get_region", "key": _rand_key(rng, shape, False)}
    if c < 0.30:
        p = int(rng.integers(1, 5))
        return {"k": "get_subs", "subs": np.stack([rng.integers(0, I, size=p) for I in shape], axis=1).tolist()}
    if c < 0.40:
        f = ["int", "arr", "slice", "list"][int(rng.integers(0, 4))]
        if f == "int":
            return {"k": "get_lin", "form": f, "v": int(rng.integers(-size, size))}
        if f == "slice":
            a = int(rng.integers(0, size))
            return {"k": "get_lin", "form": f, "v": [a, int(rng.integers(a, size + 1)), None]}
        return {"k": "get_lin", "form": f, "v": [int(x) for x in rng.integers(0, size, size=int(rng.integers(1, 5)))]}
    if c < 0.52:
        grow = rng.random() < 0.3
        idx = [int(rng.integers(0, I + (2 if grow else 0))) for I in shape]
        if not grow and rng.random() < 0.3:
            idx = [int(rng.integers(-I, I)) for I in shape]
        if grow and rng.random() < 0.3:
            idx.append(int(rng.integers(0, 2)))
        op = {"k": "set_full", "idx": idx, "v": float(rng.choice(VALS))}
        if N == 1 and len(idx) == 1 and idx[0] >= 0 and rng.random() < 0.6:
            # a one-way sparse tensor also takes the position by itself (not wrapped in a tuple), at or past the extent too
            op["bare"] = ["int", "npint"][int(rng.integers(0, 2))]
        return op
    if c < 0.72 and rng.random() < 0.08:
        # the receiver itself as the right-hand side: onto its own extent, or shifted by one along some modes (which grows those modes)
        offs = [int(rng.integers(0, 2)) if rng.random() < 0.5 else 0 for _ in shape]
        return {"k": "set_region", "key": [{"s": [o, o + I, None]} if rng.random() < 0.7 or o else {"s": [None, None, None]} for o, I in zip(offs, shape)], "rhs": "self"}
    if c < 0.72:
        key = _rand_key(rng, shape, True)
        if rng.random() < 0.15:
            key.append(int(rng.integers(0, 2)))  # order growth with an int in the new mode
        rhs = "scalar" if rng.random() < 0.5 else "array"
        if rhs == "array" and rng.random() < 0.3:
            # an index list that names a position more than once, with an array on the right: the last mention's values stay
            for e in key:
                lk = "l" if isinstance(e, dict) and "l" in e else "a" if isinstance(e, dict) and "a" in e else None
                if lk and all(0 <= v for v in e[lk]) and rng.random() < 0.8:
                    e[lk] = e[lk] + [e[lk][int(rng.integers(0, len(e[lk])))] for _ in range(int(rng.integers(1, 3)))]
                    e[lk] = [e[lk][j] for j in rng.permutation(len(e[lk]))]
        kk = [_key_elem(e) for e in key]
        if rhs == "array":
            kk = _from_end(kk, model.shape)
            need = _need(kk, None, model.shape)
            m2 = Model(model.M)
            m2.grow(need)
            idx, keep = _resolve(kk, m2.shape)
            rshape = tuple(len(i) for i, k in zip(idx, keep) if k)
            if not rshape or int(np.prod(rshape)) == 0:
                rhs = "scalar"
            else:
                return {"k": "set_region", "key": key, "rhs": "array", "v": rng.choice(VALS, size=rshape).tolist(),
                        "holder_rhs": ["ndarray", "tensor"][int(rng.integers(0, 2))]}
        if rng.random() < 0.3:
            # one value for the whole region: an index list may then name a position more than once
            for e in key:
                if isinstance(e, dict) and "l" in e and rng.random() < 0.7:
                    e["l"] = e["l"] + [e["l"][int(rng.integers(0, len(e["l"])))] for _ in range(int(rng.integers(1, 3)))]
                    e["l"] = [e["l"][j] for j in rng.permutation(len(e["l"]))]
        return {"k": "set_region", "key": key, "rhs": "scalar", "v": float(rng.choice(VALS))}
    if c < 0.92:
        p = int(rng.integers(1, 6))
        grow = rng.random() < 0.25
        subs = np.stack([rng.integers(0, I + (2 if grow else 0), size=p) for I in shape], axis=1)
        # bias towards existing nonzeros so that change / delete groups occur
        nz = np.argwhere(model.M != 0)
        if nz.shape[0] and rng.random() < 0.8:
            take = nz[rng.choice(nz.shape[0], size=min(nz.shape[0], int(rng.integers(1, 4))), replace=False)]
            subs = np.vstack((subs, take))
        subs = np.unique(subs, axis=0)
        subs = subs[rng.permutation(subs.shape[0])]
        if rng.random() < 0.25:
            return {"k": "set_subs", "subs": subs.tolist(), "vals": float(rng.choice(VALS))}
        vals = rng.choice(VALS, size=subs.shape[0])
        if rng.random() < 0.3 and len(vals) > 1:
            vals[0] = 0.0
            vals[-1] = 5.0
        return {"k": "set_subs", "subs": subs.tolist(), "vals": vals.tolist()}
    f = ["int", "arr", "slice", "list"][int(rng.integers(0, 4))]
    if f == "int":
        return {"k": "set_lin", "form": f, "v": int(rng.integers(-size, size)), "vals": float(rng.choice(VALS))}
    if f == "slice":
        a = int(rng.integers(0, size))
        return {"k": "set_lin", "form": f, "v": [a, int(rng.integers(a + 1, size + 1)), None], "vals": float(rng.choice(VALS))}
    k = int(rng.integers(1, 5))
    lin = [int(x) for x in rng.choice(size, size=min(k, size), replace=False)]
    if rng.random() < 0.5:
        return {"k": "set_lin", "form": f, "v": lin, "vals": float(rng.choice(VALS))}
    return {"k": "set_lin", "form": f, "v": lin, "vals": rng.choice(VALS, size=len(lin)).tolist()}


def _lin_indices(op, size):
    if op["form"] == "int":
        v = op["v"]
        return np.array([v if v >= 0 else size + v])
    if op["form"] == "slice":
        return np.arange(size)[slice(*op["v"])]
    return np.array(op["v"], dtype=int)


def _apply_model(model, op):
    """Apply a write to the model (reads do nothing). Returns nothing."""
    k = op["k"]
    if k == "set_full":
        idx = op["idx"]
        if any(i < 0 for i in idx):
            sh = model.shape
            idx = [i if i >= 0 else sh[n] + i for n, i in enumerate(idx)]
        model.grow([i + 1 for i in idx])
        full = list(idx) + [0] * (model.M.ndim - len(idx))
        model.M[tuple(full)] = op["v"]
    elif k == "set_region":
        kk = [_key_elem(e) for e in op["key"]]
        rshape = None
        if op["rhs"] == "self":
            op = dict(op, rhs="array", v=model.M.copy().tolist())
        if op["rhs"] == "array":
            rshape = np.asarray(op["v"]).shape
        kk = _from_end(kk, model.shape)            # positions counted from the end refer to the extent before the write grows it
        model.grow(_need(kk, rshape, model.shape))
        kk = kk + [0] * (model.M.ndim - len(kk))
        idx, keep = _resolve(kk, model.shape)
        if op["rhs"] == "scalar":
            model.M[np.ix_(*idx)] = op["v"]
        else:
            V = np.asarray(op["v"], dtype=float)
            full_shape = [len(i) for i in idx]
            V = V.reshape(full_shape)
            idx = [np.asarray(i) for i in idx]
            for m_ in range(len(idx)):
                # a position named more than once keeps what its last mention assigns
                last = {int(p_): j_ for j_, p_ in enumerate(idx[m_])}
                if len(last) < len(idx[m_]):
                    sel = np.array(sorted(last.values()))
                    V = np.take(V, sel, axis=m_)
                    idx[m_] = idx[m_][sel]
            model.M[np.ix_(*idx)] = V
    elif k == "set_subs":
        subs = np.array(op["subs"], dtype=int)
        model.grow((subs.max(axis=0) + 1).tolist())
        if subs.shape[1] < model.M.ndim:
            subs = np.hstack((subs, np.zeros((subs.shape[0], model.M.ndim - subs.shape[1]), dtype=int)))
        vals = op["vals"]
        model.M[tuple(subs.T)] = vals if np.isscalar(vals) else np.asarray(vals, dtype=float)
    elif k == "set_lin":
        lin = _lin_indices(op, model.M.size)
        subs = refops.unlin_ff(lin, model.shape)
        vals = op["vals"]
        model.M[subs] = vals if np.isscalar(vals) else np.asarray(vals, dtype=float)


def gen_cases(tier, seed):
    rng = gen.rng_for(seed, ID, tier)
    n = 2000 if tier == "quick" else 20000
    for i in range(n):
        h = _gen_history(rng, tier)
        h["w"] = "history"
        h["so_seed"] = int(rng.integers(0, 2 ** 31))
        yield h
    # large operands: thousands of stored entries, read and written thousands of subscripts at a time (any blocking / chunking inside the
    # helpers must be invisible); kept as generator parameters, expanded in run_case
    for i in range(2 if tier == "quick" else 10):
        yield {"w": "large", "shape": [[30, 30, 10], [40, 25, 12], [96, 96], [20, 20, 20]][i % 4], "nnz": [2600, 3500, 2800, 4300][i % 4], "lseed": int(rng.integers(0, 2 ** 31))}
    # forced corners ---------------------------------------------------------------------------
    for i in range(100 if tier == "quick" else 1000):
        shape = gen.rand_shape(rng, int(rng.integers(1, 4)), 2, 4)
        init = gen.sparsify(rng, rng.choice([1.0, 2.0, -1.0], size=shape), "half+")
        nz = np.argwhere(init != 0)
        zz = np.argwhere(init == 0)
        ops = []
        rows, vals = [], []
        if nz.shape[0] >= 2:
            rows += [nz[-1].tolist(), nz[0].tolist()]   # existing entries: delete one, change one
            vals += [0.0, 9.0]
        if zz.shape[0] >= 1:
            rows.append(zz[0].tolist())                 # insert
            vals.append(4.0)
        if zz.shape[0] >= 2:
            rows.append(zz[1].tolist())                 # absent and zero: nothing
            vals.append(0.0)
        if len(rows) < 2:
            continue
        order = rng.permutation(len(rows))
        if i % 3 == 0:  # first value zero, a later one not
            order = sorted(range(len(rows)), key=lambda j: vals[j] != 0.0)
        elif i % 3 == 1:  # first value non-zero, a later one zero
            order = sorted(range(len(rows)), key=lambda j: vals[j] == 0.0)
        ops.append({"k": "set_subs", "subs": [rows[j] for j in order], "vals": [vals[j] for j in order]})
        ops.append({"k": "get_subs", "subs": [rows[j] for j in order]})
        ops.append({"k": "get_region", "key": [{"s": [None, None, None]} for _ in shape]})
        yield {"w": "history", "start": "sparse", "init": init.tolist(), "shape": list(shape), "ops": ops, "so_seed": int(rng.integers(0, 2 ** 31)),
               "forced": ["first-zero", "first-nonzero", "shuffled"][i % 3]}


    # catalogue of key forms, one unusual element in one mode, written (scalar / zero / array) and read back: always present, from a
    # random stream of their own (adding a family here does not move the histories above)
    rngc = gen.rng_for(seed, ID, tier, "catalogue")
    for shape in ((5,), (4, 3), (3, 2, 2), (6, 2)) if tier == "quick" else ((5,), (4, 3), (3, 2, 2), (6, 2), (4, 4), (2, 5, 2), (7,)):
        for d in range(len(shape)):
            I = shape[d]
            forms = []
            if I >= 4:
                for L in range(4, I + 1):
                    lo = int(rngc.integers(0, I - L + 1))
                    mid = list(range(lo + 1, lo + L - 1))
                    forms.append({"l": [lo] + mid[::-1] + [lo + L - 1]})                    # a run with its interior re-ordered
                    forms.append({"a": [lo + L - 1] + [int(x) for x in rngc.permutation(mid)] + [lo]})
            forms += [{"l": [I + 1, 0]}, {"l": [I, I - 1, 0]}, {"a": [I + 2, 1]},                          # first entry past the extent, later ones stored
                      {"s": [-2, I + 2, None]}, {"s": [-2, I + 2, 1]}, {"s": [-2, I + 3, 2]}, {"s": [-I, I + 1, 2]},  # from the end, growing, every step form
                      {"s": [1, I + 2, 2]}, {"s": [0, I, 1]}, {"s": [None, None, -1]}, {"s": [I - 1, None, -2]},
                      {"l": [I - 1, 0]}, {"l": [-1, 0]}, {"l": [0, 0, I - 1]},
                      {"s": [I + 2, 0, -1]}, {"s": [I + 4, None, -2]}, {"s": [I + 5, I + 2, -1]}]     # downward from past the extent: clamped, never growing
            for f_ in forms:
                for others in ("all", "int", "short"):
                    key = []
                    for m, Im in enumerate(shape):
                        if m == d:
                            key.append(f_)
                        elif others == "all":
                            key.append({"s": [None, None, None]})
                        elif others == "int":
                            key.append(int(rngc.integers(0, Im)))
                        else:
                            key.append({"s": [0, max(1, Im - 1), None]})
                    init = gen.sparsify(rngc, rngc.choice([1.0, 2.0, -1.0, 3.5], size=shape), "half+")
                    for rhs in ("scalar", "zero", "array"):
                        model = Model(init)
                        op = {"k": "set_region", "key": json.loads(json.dumps(key)), "rhs": "scalar", "v": 7.0 if rhs == "scalar" else 0.0}
                        if rhs == "array":
                            try:
                                kk = _from_end([_key_elem(e) for e in key], model.shape)
                                m2 = Model(model.M)
                                m2.grow(_need(kk, None, model.shape))
                                idx, keep = _resolve(kk, m2.shape)
                                rshape = tuple(len(i_) for i_, k_ in zip(idx, keep) if k_)
                            except Exception:  # noqa: BLE001
                                continue
                            if not rshape or int(np.prod(rshape)) == 0 or len(set(f_.get("l", f_.get("a", [])))) != len(f_.get("l", f_.get("a", []))):
                                continue
                            op = {"k": "set_region", "key": json.loads(json.dumps(key)), "rhs": "array", "v": rngc.choice(VALS, size=rshape).tolist(),
                                  "holder_rhs": ["ndarray", "tensor"][int(rngc.integers(0, 2))]}
                        ops = [op, {"k": "get_region", "key": [{"s": [None, None, None]} for _ in shape]}]
                        rd = {"k": "get_region", "key": json.loads(json.dumps(key))}
                        h = {"w": "history", "start": "sparse", "init": init.tolist(), "shape": list(shape), "ops": ops, "so_seed": int(rngc.integers(0, 2 ** 31)),
                             "forced": "catalogue"}
                        if not _valid_history(h):
                            continue
                        h2 = dict(h, ops=ops + [rd])
                        yield h2 if _valid_history(h2) else h


# ------------------------------------------------------------------ execution ------------------
def _mk_key(op_key):
    return tuple(_key_elem(e) for e in op_key)


def _features_for(op, model_before):
    k = op["k"]
    f = {"opk": k}
    if k in ("get_region", "set_region"):
        key = op["key"]
        f["nlists"] = sum(1 for e in key if isinstance(e, dict) and ("l" in e or "a" in e))
        f["nints"] = sum(1 for e in key if not isinstance(e, dict))
        # number of "advanced" index positions in NumPy's sense (lists and integers): with a list present and two or more of them NumPy
        # zips them instead of taking the outer product (mechanism of known finding C04-K1)
        f["nadv"] = f["nlists"] + f["nints"]
        f["has_neg"] = any((not isinstance(e, dict) and e < 0) or (isinstance(e, dict) and "s" in e and any(x is not None and x < 0 for x in e["s"])) for e in key)
        f["order_growth"] = len(key) > len(model_before.shape)
        if k == "set_region":
            f["rhs"] = op["rhs"]
    if k == "set_subs":
        subs = np.array(op["subs"], dtype=int)
        vals = op["vals"]
        v = np.full(subs.shape[0], vals) if np.isscalar(vals) else np.asarray(vals, dtype=float)
        M = model_before.M
        cls = set()
        for r, val in zip(subs, v):
            inside = M is not None and len(r) == M.ndim and all(0 <= r[n] < M.shape[n] for n in range(M.ndim))
            cur = M[tuple(r)] if inside else 0.0
            cls.add(("chg" if val != 0 else "del") if cur != 0 else ("ins" if val != 0 else "nop"))
        f["mix"] = "+".join(sorted(cls))
        f["scalar_rhs"] = bool(np.isscalar(vals))
        f["first_zero"] = bool(v[0] == 0) if len(v) else False
        f["grows"] = M is None or subs.shape[1] != M.ndim or bool((subs.max(axis=0) >= np.array(M.shape)).any())
    if k == "set_full":
        M = model_before.M
        f["grows"] = M is None or len(op["idx"]) != M.ndim or any(i >= s for i, s in zip(op["idx"], M.shape))
        f["order_growth"] = M is not None and len(op["idx"]) > M.ndim
        f["zero_value"] = op["v"] == 0
        f["bare_position"] = str(op.get("bare")) if (M is not None and M.ndim == 1 and len(op["idx"]) == 1 and op["idx"][0] >= 0) else "None"
    if k in ("get_lin", "set_lin"):
        f["form"] = op["form"]
    return f


def _exec_history(case, ctx):
    """Run one history in lock step; returns index of first failing op or None."""
    rng = np.random.default_rng(case["so_seed"])
    start = case["start"]
    if case["init"] is None:
        T, S, model = ttb.tensor(), ttb.sptensor(), Model(None)
    else:
        A = np.array(case["init"], dtype=float).reshape(case["shape"])
        T = ttb.tensor(A.copy())
        nnz = int(np.count_nonzero(A))
        S = gen.mk_sptensor(ttb, A, gen.stored_order(rng, nnz, "shuffled"))
        model = Model(A)
    ctx.feat(start=start, forced=case.get("forced"))
    ctx._retained = []
    kept = []
    for step, op in enumerate(case["ops"]):
        before = ctx.nviol
        ctx.feat(step=min(step, 3), **{k: None for k in ("nlists", "nints", "nadv", "has_neg", "order_growth", "rhs", "mix", "scalar_rhs", "first_zero", "grows", "zero_value", "form")})
        ctx.feat(**_features_for(op, model))
        _exec_op(ctx, op, T, S, model)
        if ctx.nviol > before:
            return step
        fresh, ctx._retained = ctx._retained, []
        if op["k"].startswith("get") and model.M is not None and model.M.size <= 400:
            for opn, holder, got, val in fresh:
                if step % 2 == 0:
                    # overwrite the read result in place: the tensor it was read from does not move
                    buf = got if isinstance(got, np.ndarray) else (got.data if kind(got) == "tensor" else got.vals)
                    if buf.size and buf.flags.writeable:
                        buf[...] = 123.0
                        _cmp_state(ctx, opn, T, S, model)
                        for h_, X_ in (("dense", T), ("sparse", S)):
                            pass
                else:
                    kept.append((opn, holder, got, val))
            kept = kept[-6:]
            if ctx.nviol > before:
                ctx.feat(read_result_overwritten=True)
                return step
        if op["k"].startswith("set"):
            # results of earlier reads are unaffected by this write
            for opn, holder, got, val in kept:
                try:
                    now = denote(got) if kind(got) in ("tensor", "sptensor") else np.asarray(got, dtype=float)
                except DenoteError:
                    continue
                ctx.check(now.size == val.size and same(np.asarray(now, dtype=float).reshape(val.shape), val), opn, "READ-RESULT-CHANGED",
                          f"{holder}: the result of an earlier read changed when the tensor was written to afterwards", holder=holder)
            if ctx.nviol > before:
                return step
    return None


def _cmp_read(ctx, op, holder, got, want):
    want = np.asarray(want, dtype=float)
    try:
        g = denote(got) if kind(got) in ("tensor", "sptensor") else np.asarray(got, dtype=float)
    except DenoteError as e:
        ctx.check(False, op, "ILLFORMED:denote", str(e), holder=holder)
        return
    if g.size == want.size and (g.ndim <= 2 and want.ndim <= 1):
        g = g.reshape(want.shape)  # (p,1) column vs (p,) vector, scalar vs 0-d
    ok = g.shape == want.shape and same(g.astype(float), want)
    ctx.check(ok, op, "WRONG-READ", lambda: f"{holder} read gives {np.asarray(g).tolist()} want {want.tolist()}", holder=holder)
    # what a read hands out is the caller's: it is kept and looked at again after later writes, or overwritten at once (see _exec_history)
    ret = getattr(ctx, "_retained", None)
    if ok and ret is not None and (kind(got) in ("tensor", "sptensor") or isinstance(got, np.ndarray)) and np.asarray(want).size > 0:
        ret.append((op, holder, got, g.astype(float).copy()))


def _cmp_state(ctx, op, T, S, model):
    for holder, X in (("dense", T), ("sparse", S)):
        try:
            g = denote(X)
        except DenoteError as e:
            ctx.check(False, op, "ILLFORMED:denote", str(e), holder=holder)
            continue
        ok = g.shape == model.M.shape and same(g.astype(float), model.M)
        ctx.check(ok, op, "WRONG-STATE", lambda: f"{holder} state after write: shape {g.shape} {g.tolist()} want shape {model.M.shape} {model.M.tolist()}",
                  holder=holder)
    ctx.evals += 1
    for p in wellformed(S, nozero=True):
        ctx.fail(op, "ILLFORMED:" + ("explicit-zero" if "explicit zero" in p else "dtype" if "dtype" in p else "other"), p, holder="sparse")


def _do(ctx, opname, holder, fn):
    r = ctx.call(opname, fn)
    if not r.ok:
        ctx.check(False, opname, "RAISE:" + type(r.exc).__name__, f"{holder}: {type(r.exc).__name__}: {r.exc} | {r.tb}", holder=holder)
    return r


def _exec_op(ctx, op, T, S, model):
    k = op["k"]
    hs = (("dense", T, "tensor"), ("sparse", S, "sptensor"))
    if k == "get_full":
        sh = model.shape
        idx = tuple(op["idx"])
        want = model.M[tuple(i if i >= 0 else sh[n] + i for n, i in enumerate(idx))]
        for holder, X, cls in hs:
            r = _do(ctx, f"{cls}.__getitem__", holder, lambda X=X: X[idx])
            if r.ok:
                _cmp_read(ctx, f"{cls}.__getitem__", holder, r.value, want)
    elif k == "get_region":
        key = _mk_key(op["key"])
        idx, keep = _resolve(list(key), model.shape)
        want = model.M[np.ix_(*idx)].reshape([len(i) for i, kp in zip(idx, keep) if kp])
        for holder, X, cls in hs:
            r = _do(ctx, f"{cls}.__getitem__", holder, lambda X=X: X[key])
            if r.ok:
                _cmp_read(ctx, f"{cls}.__getitem__", holder, r.value, want)
    elif k == "get_subs":
        subs = np.array(op["subs"], dtype=int)
        want = model.M[tuple(subs.T)]
        for holder, X, cls in hs:
            r = _do(ctx, f"{cls}.__getitem__", holder, lambda X=X: X[subs.copy()])
            if r.ok:
                _cmp_read(ctx, f"{cls}.__getitem__", holder, r.value, want)
    elif k == "get_lin":
        lin = _lin_indices(op, model.M.size)
        want = model.M[refops.unlin_ff(lin, model.shape)]
        key = op["v"] if op["form"] == "int" else slice(*op["v"]) if op["form"] == "slice" else (np.array(op["v"]) if op["form"] == "arr" else list(op["v"]))
        for holder, X, cls in hs:
            r = _do(ctx, f"{cls}.__getitem__", holder, lambda X=X: X[key.copy() if isinstance(key, np.ndarray) else key])
            if r.ok:
                _cmp_read(ctx, f"{cls}.__getitem__", holder, r.value, want)
    elif k == "set_full":
        idx = tuple(op["idx"])
        v = op["v"]
        bare = op.get("bare") if (len(model.shape) == 1 and len(idx) == 1 and idx[0] >= 0) else None
        _apply_model(model, op)
        for holder, X, cls in hs:
            kx = idx
            if bare and holder == "sparse":
                kx = int(idx[0]) if bare == "int" else np.int64(idx[0])
            _do(ctx, f"{cls}.__setitem__", holder, lambda X=X, kx=kx: X.__setitem__(kx, v))
        _cmp_state(ctx, "__setitem__", T, S, model)
    elif k == "set_region":
        key = _mk_key(op["key"])
        shape_before = tuple(model.shape)
        _apply_model(model, op)
        grew = tuple(model.shape) != shape_before
        if op["rhs"] == "scalar":
            for holder, X, cls in hs:
                _do(ctx, f"{cls}.__setitem__", holder, lambda X=X: X.__setitem__(key, op["v"]))
        elif op["rhs"] == "self":
            _do(ctx, "tensor.__setitem__", "dense", lambda: T.__setitem__(key, T))
            _do(ctx, "sptensor.__setitem__", "sparse", lambda: S.__setitem__(key, S))
        else:
            V = np.array(op["v"], dtype=float)
            dr = V.copy() if op.get("holder_rhs") == "ndarray" else ttb.tensor(V.copy())
            _do(ctx, "tensor.__setitem__", "dense", lambda: T.__setitem__(key, dr))
            sr = gen.mk_sptensor(ttb, V)
            _do(ctx, "sptensor.__setitem__", "sparse", lambda: S.__setitem__(key, sr))
            _cmp_state(ctx, "__setitem__", T, S, model)
            # the same right-hand-side objects are used again for the same region: the state must not move
            # (a right-hand side corrupted by the first assignment would land somewhere else)
            # (not for a key with positions counted from the end that also grew the tensor: it names other positions now)
            if not (grew and _has_negative(op["key"])):
                _do(ctx, "tensor.__setitem__", "dense", lambda: T.__setitem__(key, dr))
                _do(ctx, "sptensor.__setitem__", "sparse", lambda: S.__setitem__(key, sr))
                ctx.feat(reused_rhs=True)
        _cmp_state(ctx, "__setitem__", T, S, model)
        ctx.feat(reused_rhs=None)
    elif k == "set_subs":
        subs = np.array(op["subs"], dtype=int)
        vals = op["vals"]
        _apply_model(model, op)
        if np.isscalar(vals):
            dv, sv = vals, vals
        else:
            dv = np.array(vals, dtype=float)
            sv = np.array(vals, dtype=float).reshape(-1, 1)
        _do(ctx, "tensor.__setitem__", "dense", lambda: T.__setitem__(subs.copy(), dv))
        _do(ctx, "sptensor.__setitem__", "sparse", lambda: S.__setitem__(subs.copy(), sv))
        _cmp_state(ctx, "__setitem__", T, S, model)
    elif k == "set_lin":
        lin = _lin_indices(op, model.M.size)
        key = op["v"] if op["form"] == "int" else slice(*op["v"]) if op["form"] == "slice" else (np.array(op["v"]) if op["form"] == "arr" else list(op["v"]))
        vals = op["vals"]
        subs = np.stack(refops.unlin_ff(lin, model.shape), axis=1)
        _apply_model(model, op)
        dv = vals if np.isscalar(vals) else np.array(vals, dtype=float)
        _do(ctx, "tensor.__setitem__", "dense", lambda: T.__setitem__(key.copy() if isinstance(key, np.ndarray) else key, dv))
        # sparse tensors document no linear-index assignment: the sparse holder gets the equivalent subscript write
        sv = vals if np.isscalar(vals) else np.array(vals, dtype=float).reshape(-1, 1)
        _do(ctx, "sptensor.__setitem__", "sparse", lambda: S.__setitem__(subs.copy(), sv))
        _cmp_state(ctx, "__setitem__", T, S, model)


def _valid_history(case):
    """Is every op inside the documented domain for the state the model is in when it runs?"""
    model = Model(None if case["init"] is None else np.array(case["init"], dtype=float).reshape(case["shape"]))
    try:
        for op in case["ops"]:
            if not _valid(op, model):
                return False
            _apply_model(model, op)
    except Exception:  # noqa: BLE001
        return False
    return True


def _valid(op, model):
    shape = model.shape
    N = len(shape)
    k = op["k"]
    if N == 0:
        if k == "set_full":
            return all(i >= 0 for i in op["idx"])
        if k == "set_subs":
            return True
        if k == "set_region":
            return all(isinstance(e, dict) and "s" in e and e["s"][1] is not None for e in op["key"])
        return False
    size = int(np.prod(shape))
    if k == "get_full":
        return len(op["idx"]) == N and all(-I <= i < I for i, I in zip(op["idx"], shape))
    if k in ("get_region", "set_region"):
        key = op["key"]
        if (k == "get_region" and len(key) != N) or len(key) < N:
            return False
        for n, e in enumerate(key):
            new_mode = n >= N
            I = shape[n] if not new_mode else 0
            if isinstance(e, dict) and "s" in e:
                a, b, c = e["s"]
                if any(x is not None and x < 0 for x in (a, b)) and new_mode:
                    return False
                if any(x is not None and x < -I for x in (a, b)):
                    return False
                if k == "set_region" and len(range(I)[slice(a, b, c)]) == 0 and any(x is not None and x < 0 for x in (a, b)):
                    return False
                if new_mode and b is None:
                    return False
                if k == "get_region" and len(range(I)[slice(a, b, c)]) == 0:
                    return False
                if k == "get_region" and b is not None and b > I:
                    return False
            elif isinstance(e, dict):
                vals = e.get("l", e.get("a"))
                if any(v < 0 for v in vals) and (new_mode or any(v < -I for v in vals)):
                    return False
                norm_ = [v + I if v < 0 else v for v in vals]
                if (k == "get_region" and any(v >= I for v in norm_)) or len(set(norm_)) != len(norm_):
                    return False
            else:
                if e < 0 and (new_mode or e < -I):
                    return False
                if k == "get_region" and e >= I:
                    return False
        if k == "set_region" and op["rhs"] == "self":
            if len(key) != N or model.M is None or model.M.size == 0:
                return False
            for e, I in zip(key, shape):
                if not (isinstance(e, dict) and "s" in e and e["s"][2] is None):
                    return False
                a, b, _ = e["s"]
                if not ((a is None and b is None) or (a is not None and b is not None and b - a == I and a >= 0)):
                    return False
            return True
        if k == "set_region" and op["rhs"] == "array":
            kk = _from_end([_key_elem(e) for e in key], model.shape)
            m2 = Model(model.M)
            m2.grow(_need(kk, np.asarray(op["v"]).shape, model.shape))
            kk = kk + [0] * (m2.M.ndim - len(kk))
            idx, keep = _resolve(kk, m2.shape)
            if tuple(len(i) for i, kp in zip(idx, keep) if kp) != np.asarray(op["v"]).shape:
                return False
        return True
    if k == "get_subs":
        subs = np.array(op["subs"])
        return subs.ndim == 2 and subs.shape[1] == N and bool((subs >= 0).all() and (subs < np.array(shape)).all())
    if k == "set_subs":
        subs = np.array(op["subs"])
        return subs.ndim == 2 and subs.shape[1] == N and bool((subs >= 0).all())
    if k == "set_full":
        idx = op["idx"]
        if len(idx) < N:
            return False
        if any(i < 0 for i in idx):
            return len(idx) == N and all(-I <= i < I for i, I in zip(idx, shape))
        return True
    if k in ("get_lin", "set_lin"):
        if op["form"] == "int":
            return -size <= op["v"] < size
        if op["form"] == "slice":
            a, b, _ = op["v"]
            n_ = len(range(size)[slice(a, b)])
            return n_ > 0 and (b is None or b <= size) and (np.isscalar(op.get("vals", 0.0)) or len(op["vals"]) == n_)
        return all(0 <= v < size for v in op["v"]) and len(set(op["v"])) == len(op["v"])
    return False


def _large_history(case):
    rng = np.random.default_rng(case["lseed"])
    shape = tuple(case["shape"])
    size = int(np.prod(shape))
    init = np.zeros(size)
    pos = rng.choice(size, size=case["nnz"], replace=False)
    init[pos] = rng.choice(VALS[2:], size=case["nnz"])
    init = init.reshape(shape)
    nz = np.argwhere(init != 0)
    zz = np.argwhere(init == 0)
    ops = [{"k": "get_subs", "subs": np.stack([rng.integers(0, I, size=4000) for I in shape], axis=1).tolist()},
           {"k": "get_lin", "form": "slice", "v": [0, size, None]}]
    take = nz[rng.choice(len(nz), size=min(len(nz), 1800), replace=False)]
    new = zz[rng.choice(len(zz), size=min(len(zz), 1500), replace=False)]
    rows = np.vstack([take, new])
    vals = np.concatenate([np.where(rng.random(len(take)) < 0.4, 0.0, 9.0), rng.choice([4.0, 0.0, -3.0], size=len(new))])
    pm = rng.permutation(len(rows))
    ops.append({"k": "set_subs", "subs": rows[pm].tolist(), "vals": vals[pm].tolist()})
    ops.append({"k": "get_subs", "subs": rows[pm][:3000].tolist()})
    ops.append({"k": "get_region", "key": [{"s": [None, None, None]} for _ in shape]})
    ops.append({"k": "set_region", "key": [{"s": [0, max(1, I // 2), None]} for I in shape], "rhs": "scalar", "v": 0.0})
    ops.append({"k": "get_lin", "form": "slice", "v": [0, size, None]})
    return {"w": "history", "start": "sparse", "init": init.tolist(), "shape": list(shape), "ops": ops, "so_seed": case["lseed"]}


def run_case(case, ctx):
    if case.get("w") == "large":
        ctx.feat(large=True)
        _safe_exec(_large_history(case), ctx)
        return
    # probe run (not recorded) to find the first failing step, then shrink the history greedily
    probe = Ctx(ctx.prop)
    probe.begin(case)
    fail_at = _safe_exec(case, probe)
    if fail_at is None and probe.nviol == 0:
        _safe_exec(case, ctx)
        return
    sig = _vsig(probe.violations[0]) if probe.violations else None
    ops = list(case["ops"][: (fail_at + 1) if fail_at is not None else len(case["ops"])])
    changed = True
    while changed and len(ops) > 1:
        changed = False
        for i in range(len(ops) - 2, -1, -1):
            trial = dict(case, ops=ops[:i] + ops[i + 1:])
            if not _valid_history(trial):
                continue
            p2 = Ctx(ctx.prop)
            p2.begin(trial)
            try:
                _safe_exec(trial, p2)
            except Exception:  # noqa: BLE001
                continue
            if p2.violations and _vsig(p2.violations[0]) == sig:
                ops = trial["ops"]
                changed = True
                break
    shrunk = dict(case, ops=ops, shrunk_from=len(case["ops"]))
    ctx.begin(shrunk)
    _safe_exec(shrunk, ctx)


def _vsig(v):
    """Mechanism signature a shrunk history must keep (so that shrinking cannot drift into another defect)."""
    f = v["features"]
    return (v["op"], v["symptom"], f.get("holder"), f.get("opk"), bool(f.get("nlists") or 0), bool(f.get("has_neg")), bool(f.get("order_growth")), f.get("rhs"))


def _safe_exec(case, ctx):
    try:
        return _exec_history(case, ctx)
    except (IndexError, ValueError, KeyError) as e:
        # the model could not follow (history generated against a diverged state after shrinking)
        if ctx.nviol:
            return None
        raise
