"""C16 -- export followed by import reproduces the object exactly."""
import itertools
import zlib
import os
import shutil
import tempfile

import numpy as np

from .. import load
from .. import gen
from ..mutsan import state_digest

np_, ttb = load()
ID = "C16"
RULE = ("case = (object kind dense/sparse/Kruskal/matrix, shape N=1..5 incl. singleton modes and non-square factors, rank 1..5, value family: random "
        "finite bit patterns over the whole exponent range / denormals / signed zeros / extremes / integers beyond 2^53 / 17-digit stress values, sparsity "
        "pattern none/one/some/all in shuffled stored order, index base 1 or 0, case seed); non-trivial = object has >= 2 values; distinct = hash")
ANCHORS = ["export_data:export_data", "export_data:export_array", "export_data:export_sparse_array", "export_data:export_factor",
           "export_data:export_weights", "import_data:import_data", "import_data:import_sparse_array", "import_data:import_array",
           "import_data:import_shape"]
WATCHDOG = {"quick": 600, "thorough": 3000}
FAMILIES = ["bits", "denormal", "special", "bigint", "digits17", "normal", "whole"]


def nontrivial(case):
    return int(np.prod([int(x) for x in case["shape"]], dtype=object)) >= 2


def gen_cases(tier, seed):
    rng = gen.rng_for(seed, ID, tier)
    cs = itertools.count(1)

    def C(**kw):
        kw["cseed"] = int(seed) * 179424673 % (2 ** 31) + next(cs)
        return kw

    reps = 3 if tier == "quick" else 30
    for _ in range(reps):
        for N in range(1, 6):
            shape = [int(s) for s in rng.integers(1, 5 if N < 4 else 4, size=N)]
            if rng.random() < 0.3:
                shape[int(rng.integers(0, N))] = 1
            for fam in FAMILIES:
                yield C(w="tensor", shape=shape, fam=fam)
                for pat in ("none", "one", "some", "all", "stored-zeros"):
                    yield C(w="sptensor", shape=shape, fam=fam, pattern=pat, base=1)
                yield C(w="sptensor", shape=shape, fam=fam, pattern="some", base=0)
                yield C(w="ktensor", shape=shape, fam=fam, R=int(rng.integers(1, 6)))
        for fam in FAMILIES:
            for layout in ("C", "F", "transposed-view", "strided-view"):
                yield C(w="matrix", shape=[int(rng.integers(1, 6)), int(rng.integers(1, 6))], fam=fam, layout=layout)
            yield C(w="tensor", shape=[int(rng.integers(2, 5)), int(rng.integers(2, 5)), int(rng.integers(1, 4))], fam=fam, layout="C")
            # a NumPy array of another order written as a "matrix" block: vectors (including length 1) and 3-way arrays
            yield C(w="matrix", shape=[int(rng.integers(1, 7))], fam=fam, layout="C")
            yield C(w="matrix", shape=[1], fam=fam, layout="C")
            yield C(w="matrix", shape=[int(rng.integers(1, 4)), int(rng.integers(1, 4)), int(rng.integers(1, 4))], fam=fam, layout="C")
    yield C(w="tensor", shape=[40, 45, 40], fam="bits")        # > 1 MB of text: larger than any text-I/O buffer
    yield C(w="ktensor", shape=[300, 2, 150], fam="normal", R=60)
    yield C(w="sptensor", shape=[50, 60, 70], fam="bits", pattern="big", base=1)
    yield C(w="sptensor", shape=[50, 60, 70], fam="normal", pattern="big2", base=1)        # more than 2^17 stored entries
    # subscripts held in a narrow integer type, up to the largest value of that type
    for dt, shp in (("uint8", [256, 2]), ("int8", [128, 3]), ("uint16", [65536, 2]), ("int16", [3, 32768]), ("uint8", [2, 256, 2])):
        for base in (1, 0):
            yield C(w="sptensor", shape=shp, fam="normal", pattern="narrow", base=base, subs_dtype=dt)
    # many modes (the order line of the file has two digits)
    for N in (9, 10, 11, 12):
        shp = [int(x) for x in rng.integers(1, 3, size=N)]
        for fam in ("normal", "bits"):
            yield C(w="tensor", shape=shp, fam=fam)
            yield C(w="sptensor", shape=shp, fam=fam, pattern="some", base=1)
            yield C(w="sptensor", shape=shp, fam=fam, pattern="some", base=0)
            yield C(w="ktensor", shape=shp, fam=fam, R=2)
    # index spaces whose subscripts no double represents exactly (hashed / id-like modes): subscripts are integers end to end
    for shp in ([2 ** 60, 3, 2 ** 60 - 1], [2 ** 62, 2], [5, 2 ** 53 + 7], [2 ** 31, 2 ** 31, 2]):
        for base in (1, 0):
            yield C(w="sptensor", shape=shp, fam="normal", pattern="huge", base=base)


def _values(rng, n, fam):
    if fam == "bits":
        out = np.empty(n)
        i = 0
        while i < n:
            cand = rng.integers(0, 2 ** 64, size=2 * (n - i) + 8, dtype=np.uint64).view(np.float64)
            cand = cand[np.isfinite(cand) & (cand != 0)]
            k = min(len(cand), n - i)
            out[i:i + k] = cand[:k]
            i += k
        return out
    if fam == "denormal":
        return (rng.integers(1, 2 ** 52, size=n, dtype=np.uint64)).view(np.float64) * rng.choice([-1.0, 1.0], size=n)
    if fam == "special":
        pool = np.array([np.finfo(float).max, -np.finfo(float).max, np.finfo(float).tiny, -np.finfo(float).tiny, 5e-324, -5e-324,
                         1.0, -1.0, 0.1, 1 / 3, 2 / 3, np.pi, 1e308, 1e-308, 1.7976931348623157e308, 2.2250738585072014e-308, 4.9e-324])
        return rng.choice(pool, size=n)
    if fam == "whole":
        # whole-number doubles (counts, indicators, a constant fill), negative zero included: still float64 after the round trip
        k_ = int(rng.integers(0, 3))
        out = rng.integers(-5, 40, size=n).astype(float) if k_ == 0 else (rng.random(n) < 0.5).astype(float) if k_ == 1 else np.full(n, 3.0)
        if n > 1:
            out[int(rng.integers(0, n))] = -0.0
        return out
    if fam == "bigint":
        return (2.0 ** 53 + rng.integers(0, 2 ** 20, size=n) * 2.0) * rng.choice([-1.0, 1.0], size=n)
    if fam == "digits17":
        return np.nextafter(rng.choice([0.1, 0.3, 1e22, 9.007199254740993e15, 5e-324 * 3], size=n), rng.choice([-np.inf, np.inf], size=n))
    return rng.standard_normal(n)


def _bits(a):
    a = np.asarray(a)
    if a.dtype != np.float64:
        # an imported array of another element type is not "bit for bit the values written": give it a bit pattern that cannot match
        return np.full(a.shape, np.uint64(0xFFFFFFFFFFFFFFFF), dtype=np.uint64) if a.dtype.kind in "iub" else np.ascontiguousarray(a.astype(np.float64)).view(np.uint64)
    return np.ascontiguousarray(a).view(np.uint64)


def _prior_export(case, ctx, rng, d):
    """History: an earlier export in the same process with explicit, lossy number formats must not influence a later default export."""
    kind = gen.pick(case) % 4
    fmts = [("%.3f", "%.2f"), ("%d", "%d"), ("%.1e", "%.1e")][gen.pick(case) % 3]
    if kind == 0:
        obj = ttb.tensor(rng.standard_normal((2, 3)))
    elif kind == 1:
        obj = ttb.ktensor([rng.standard_normal((2, 2)), rng.standard_normal((3, 2))], rng.standard_normal(2))
    elif kind == 2:
        obj = ttb.sptensor(np.array([[0, 1], [1, 2]]), rng.standard_normal((2, 1)), (2, 3))
    else:
        obj = rng.standard_normal((3, 2))
    r = ctx.call("export_data", ttb.export_data, obj, os.path.join(d, "prior.tns"), fmt_data=fmts[0], fmt_weights=fmts[1])
    ctx.tag("after-explicit-format-export" if r.ok else "prior-export-raised")


def run_case(case, ctx):
    rng = np.random.default_rng(case["cseed"])
    shape = tuple(int(x) for x in case["shape"])
    d = tempfile.mkdtemp(prefix="pvm_c16_")
    try:
        prior = gen.pick(case) % 3 == 0
        ctx.feat(after_explicit_format=prior)
        if prior:
            _prior_export(case, ctx, np.random.default_rng(case["cseed"] + 1), d)
        _run(case, ctx, rng, shape, os.path.join(d, "obj.tns"))
    finally:
        shutil.rmtree(d, ignore_errors=True)


def _failed_export_first(ctx, obj, path, dig):
    if zlib.crc32(repr(dig).encode()) % 3 != 0:
        return
    # object history: an earlier export of this very object that failed part-way (a number format that cannot be applied, met
    # when the first value is written): the object is as it was, and the export that follows is not influenced
    bad = ["%z", "%d%d", "%"][zlib.crc32(repr(dig).encode()) // 3 % 3]
    r0 = ctx.call("export_data", ttb.export_data, obj, path + ".failed", fmt_data=bad, fmt_weights=bad)
    ctx.feat(after_failed_export=not r0.ok)
    ctx.tag("after-failed-export-of-the-same-object" if not r0.ok else "bad-format-accepted")
    ctx.check(state_digest(obj) == dig, "export_data", "MUTATED", f"an export that failed ({type(r0.exc).__name__ if not r0.ok else 'no error'}) changed the object")


def _roundtrip(ctx, obj, path, **kw):
    dig = state_digest(obj)
    _failed_export_first(ctx, obj, path, dig)
    r = ctx.call("export_data", ttb.export_data, obj, path)
    if not r.ok:
        ctx.check(False, "export_data", "RAISE:" + type(r.exc).__name__, f"{type(r.exc).__name__}: {r.exc} | {r.tb}")
        return None
    ctx.check(state_digest(obj) == dig, "export_data", "MUTATED", "export changed the object")
    r = ctx.call("import_data", ttb.import_data, path, **kw)
    if not r.ok:
        ctx.check(False, "import_data", "RAISE:" + type(r.exc).__name__, f"{type(r.exc).__name__}: {r.exc} | {r.tb}")
        return None
    return r.value


def _run(case, ctx, rng, shape, path):
    w, fam = case["w"], case["fam"]
    n = int(np.prod([int(x) for x in shape], dtype=object))
    ctx.feat(kind=w, fam=fam, N=len(shape), has_singleton=bool(1 in shape))
    if w == "tensor":
        A = _values(rng, n, fam).reshape(shape)
        if fam == "special" and n > 2:
            A.reshape(-1)[0] = 0.0
            A.reshape(-1)[1] = -0.0
        T = ttb.tensor(np.ascontiguousarray(A)) if case.get("layout") == "C" else ttb.tensor(A.copy())
        if gen.pick(case) % 3 == 1 and fam != "special":
            # object history: a tensor enlarged by assignment (its buffer is laid out differently from a constructed one)
            T = gen.mk_tensor(ttb, A, "grown")
            ctx.feat(hist="grown")
        B = _roundtrip(ctx, T, path)
        if B is None:
            return
        ok = isinstance(B, ttb.tensor) and tuple(B.shape) == shape
        ctx.check(ok, "import_data", "WRONG-TYPE", f"imported {type(B).__name__} shape {getattr(B, 'shape', None)}, want tensor {shape}")
        if ok:
            ctx.check(bool(np.array_equal(_bits(B.data), _bits(A))), "import_data", "VALUE-BITS",
                      lambda: f"values differ: first mismatch {_first(B.data, A)}")
    elif w == "matrix":
        A = _values(rng, n, fam).reshape(shape)
        layout = case.get("layout", "C")
        ctx.feat(layout=layout)
        if layout == "F":
            arg = np.asfortranarray(A)
        elif layout == "transposed-view":
            arg = np.ascontiguousarray(A.T).T          # same values, a transposed view of a C-contiguous buffer
        elif layout == "strided-view":
            big = np.zeros((shape[0] * 2, shape[1] * 2))
            big[::2, ::2] = A
            arg = big[::2, ::2]
        else:
            arg = A.copy()
        B = _roundtrip(ctx, arg, path)
        if B is None:
            return
        ok = isinstance(B, np.ndarray) and B.shape == shape
        ctx.check(ok, "import_data", "WRONG-TYPE", f"imported {type(B).__name__} shape {getattr(B, 'shape', None)}")
        if ok:
            ctx.check(bool(np.array_equal(_bits(B), _bits(A))), "import_data", "VALUE-BITS", lambda: f"matrix values differ: {_first(B, A)}")
    elif w == "ktensor":
        R = case["R"]
        fm = [_values(rng, s * R, fam).reshape(s, R) for s in shape]
        wts = _values(rng, R, fam)
        K = ttb.ktensor([f.copy() for f in fm], wts.copy())
        B = _roundtrip(ctx, K, path)
        if B is None:
            return
        ok = isinstance(B, ttb.ktensor) and tuple(B.shape) == shape and B.ncomponents == R
        ctx.check(ok, "import_data", "WRONG-TYPE", f"imported {type(B).__name__} shape {getattr(B, 'shape', None)}")
        if ok:
            ctx.check(bool(np.array_equal(_bits(B.weights), _bits(wts))), "import_data", "VALUE-BITS", "weights differ")
            for k in range(len(shape)):
                ctx.check(B.factor_matrices[k].shape == fm[k].shape and bool(np.array_equal(_bits(B.factor_matrices[k]), _bits(fm[k]))), "import_data", "VALUE-BITS",
                          lambda k=k: f"factor {k} differs: {_first(B.factor_matrices[k], fm[k])}", factor=min(k, 3))
    else:
        pat = case["pattern"]
        if pat == "narrow":
            k = 5
            subs = np.array([[int(rng.integers(0, s_)) for s_ in shape] for _ in range(k)], dtype=np.int64)
            subs[0] = [s_ - 1 for s_ in shape]
            subs = np.unique(subs, axis=0)
            subs = subs[rng.permutation(subs.shape[0])]
            k = subs.shape[0]
        elif pat == "huge":
            k = 6
            subs = np.array([[int(rng.integers(max(0, s_ - 1000), s_)) if rng.random() < 0.7 else int(rng.integers(0, s_)) for s_ in shape] for _ in range(k)], dtype=np.int64)
            subs[0] = [s_ - 1 for s_ in shape]
            subs = np.unique(subs, axis=0)
            subs = subs[rng.permutation(subs.shape[0])]
            k = subs.shape[0]
        elif pat in ("big", "big2"):
            k = 70000 if pat == "big" else 140000
            lin = rng.choice(n, size=k, replace=False)
            subs = np.stack(np.unravel_index(lin, shape), axis=1)
        else:
            k = {"none": 0, "one": 1, "some": max(1, n // 2), "all": n, "stored-zeros": max(1, (2 * n) // 3)}[pat]
            k = min(k, n)
            lin = rng.choice(n, size=k, replace=False)
            subs = np.stack(np.unravel_index(lin, shape), axis=1) if k else np.zeros((0, len(shape)), dtype=int)
        vals = _values(rng, k, fam).reshape(-1, 1)
        if pat == "stored-zeros":
            # explicitly stored zeros (of either sign) are part of the object: the constructor keeps them, so must the file
            z = rng.random(k) < 0.4
            z[int(rng.integers(0, k))] = True
            vals[z, 0] = rng.choice([0.0, -0.0], size=int(z.sum()))
        sdt = np.dtype(case.get("subs_dtype", "int64"))
        S = ttb.sptensor(subs.astype(sdt), vals.copy(), shape) if k else ttb.sptensor(shape=shape)
        ctx.feat(subs_dtype=str(sdt))
        ctx.feat(pattern=pat, base=case["base"])
        dig = state_digest(S)
        _failed_export_first(ctx, S, path, dig)
        r = ctx.call("export_data", ttb.export_data, S, path)
        if not r.ok:
            ctx.check(False, "export_data", "RAISE:" + type(r.exc).__name__, f"{type(r.exc).__name__}: {r.exc} | {r.tb}")
            return
        ctx.check(state_digest(S) == dig, "export_data", "MUTATED", "export changed the object")
        # the file carries 1-based subscripts
        with open(path) as f:
            lines = f.read().split("\n")
        body = [ln for ln in lines[4:] if ln.strip()]
        ok = lines[0].strip() == "sptensor" and len(body) == k
        if ok and k:
            filesubs = np.array([[int(x) for x in ln.split()[:-1]] for ln in body[: min(k, 2000)]])
            ok = bool(np.array_equal(filesubs, subs[: filesubs.shape[0]] + 1))
        ctx.check(ok, "export_data", "FILE-FORMAT", "exported sparse file does not list the nonzeros in stored order with 1-based subscripts")
        kw = {}
        if case["base"] == 0:
            # rewrite the file with 0-based subscripts and read it with index_base=0
            out = lines[:4]
            for ln in body:
                parts = ln.split()
                out.append(" ".join([str(int(x) - 1) for x in parts[:-1]] + [parts[-1]]))
            with open(path, "w") as f:
                f.write("\n".join(out) + "\n")
            kw = {"index_base": 0}
        r = ctx.call("import_data", ttb.import_data, path, **kw)
        if not r.ok:
            ctx.check(False, "import_data", "RAISE:" + type(r.exc).__name__, f"{type(r.exc).__name__}: {r.exc} | {r.tb}")
            return
        B = r.value
        ok = isinstance(B, ttb.sptensor) and tuple(B.shape) == shape and B.nnz == k
        ctx.check(ok, "import_data", "WRONG-TYPE", f"imported {type(B).__name__} shape {getattr(B, 'shape', None)} nnz {getattr(B, 'nnz', None)}, want sptensor {shape} nnz {k}")
        if ok and k:
            ctx.check(bool(np.array_equal(np.asarray(B.subs), subs)), "import_data", "SUBS", "subscripts or their order changed")
            ctx.check(bool(np.array_equal(_bits(B.vals.reshape(-1)), _bits(vals.reshape(-1)))), "import_data", "VALUE-BITS", lambda: f"values differ: {_first(B.vals.reshape(-1), vals.reshape(-1))}")


def _first(got, want):
    g, w = np.asarray(got, dtype=float).reshape(-1), np.asarray(want, dtype=float).reshape(-1)
    if g.shape != w.shape:
        return f"shape {np.asarray(got).shape} vs {np.asarray(want).shape}"
    bad = np.nonzero(_bits(g) != _bits(w))[0]
    if not len(bad):
        return "(same bits when flattened in memory order: layout differs)"
    i = int(bad[0])
    return f"at flat position {i}: got {g[i]!r} want {w[i]!r}"
