"""C08 -- Kruskal re-parameterisations preserve the tensor and reach their normal form."""
import itertools
import operator

import numpy as np

from .. import load
from .. import gen
from ..core import CaseAbort
from ..denote import denote, close, same

np_, ttb = load()
ID = "C08"
RULE = ("case = (re-parameterisation, shape N=1..4 sizes 1..4, rank 1..4, weights of both signs / zero, zero columns, norm type, absorbing mode or "
        "'all', component permutation or subset, reference sign pattern, case seed); every component permutation for R<=4, every non-empty "
        "component subset, every per-mode sign pattern (2^N) of the reference for fixsigns; non-trivial = rank >= 2 or N >= 2; distinct = hash")
ANCHORS = [
    "ktensor:ktensor.normalize", "ktensor:ktensor.arrange", "ktensor:ktensor.fixsigns", "ktensor:ktensor.redistribute",
    "ktensor:ktensor.extract", "ktensor:ktensor.tovec", "ktensor:ktensor.from_vector", "ktensor:ktensor.update", "ktensor:ktensor.tolist",
    "ktensor:ktensor.__add__", "ktensor:ktensor.__sub__", "ktensor:ktensor.__mul__", "ktensor:ktensor.__neg__",
    "ktensor:ktensor.score", "ktensor:ktensor.__rmul__",
]
EXHAUSTIVE = {
    "quick": {"component permutations R<=3, component subsets R<=3, fixsigns reference sign patterns 2^N for N<=3": "complete"},
    "thorough": {"component permutations R<=4, component subsets R<=4, sign patterns 2^N for N<=4 x every component": "complete"},
}
STRIDED_ARGS = True   # a quarter of the cases pass every array argument as a strided, non-contiguous view (core.Ctx.begin)
MUTSAN = "full"        # operand digests + result-vs-operand aliasing on every depth-0 call (pvm/mutsan.py)
WATCHDOG = {"quick": 600, "thorough": 3000}
TOL = 1e-10


def nontrivial(case):
    return case["R"] >= 2 or len(case["shape"]) >= 2


def _gen_cases(tier, seed):
    rng = gen.rng_for(seed, ID, tier)
    cs = itertools.count(1)

    def C(**kw):
        kw["cseed"] = int(seed) * 2750159 + next(cs)
        return kw

    maxR = 3 if tier == "quick" else 4
    maxN = 3 if tier == "quick" else 4
    reps = 1 if tier == "quick" else 4
    shapes = {1: [(3,), (1,)], 2: [(2, 3), (3, 1)], 3: [(2, 3, 2), (1, 2, 3)], 4: [(2, 2, 3, 2)]}
    # sign fixing without a reference on components with 0..N negative-dominant factors, orders 3 to 5 (pairs of flips: the count
    # left over is the parity)
    for shp in ((2, 3, 2), (2, 2, 3, 2), (2, 2, 2, 2, 3)):
        for k_ in range(len(shp) + 1):
            yield C(w="fixsigns_alone", shape=list(shp), R=2, wk="positive", zerocol=False, negative_dominant=k_)
    wkinds = ["mixed", "positive", "with-zero", "ones", "signs"]      # signs: every weight +1 or -1, at least one -1
    for _ in range(reps):
        for N in range(1, maxN + 1):
            for shp in shapes[N] + [gen.rand_shape(rng, N, 1, 4)]:
                for R in range(1, maxR + 1):
                    for wk in wkinds:
                        zc = bool(rng.integers(0, 4) == 0)
                        for nt in (1, 2, "inf"):
                            yield C(w="normalize", shape=list(shp), R=R, wk=wk, zerocol=zc, normtype=nt,
                                    weight_factor=[None, "all", int(rng.integers(0, N))][int(rng.integers(0, 3))],
                                    sort=bool(rng.integers(0, 2)), mode=None)
                        for nt in (2, 1, "inf"):
                            # a single mode normalised (its column norms move into the weights), in every norm
                            yield C(w="normalize", shape=list(shp), R=R, wk=wk, zerocol=zc, normtype=nt, weight_factor=None, sort=False,
                                    mode=int(rng.integers(0, N)))
                        for wf in [None] + list(range(N)):
                            yield C(w="arrange", shape=list(shp), R=R, wk=wk, zerocol=zc, weight_factor=wf, perm=None)
                        for m in range(N):
                            yield C(w="redistribute", shape=list(shp), R=R, wk=wk, zerocol=zc, mode=m)
                        yield C(w="vec", shape=list(shp), R=R, wk=wk, zerocol=zc, include_weights=True)
                        yield C(w="vec", shape=list(shp), R=R, wk=wk, zerocol=zc, include_weights=False)
                        yield C(w="tolist", shape=list(shp), R=R, wk=wk, zerocol=zc, mode=None)
                        yield C(w="tolist", shape=list(shp), R=R, wk=wk, zerocol=zc, mode=int(rng.integers(0, N)))
                        yield C(w="algebra", shape=list(shp), R=R, wk=wk, zerocol=zc, R2=int(rng.integers(1, maxR + 1)))
                        yield C(w="fixsigns_alone", shape=list(shp), R=R, wk=wk, zerocol=zc)
                        yield C(w="update", shape=list(shp), R=R, wk=wk, zerocol=zc,
                                modes=sorted(int(x) for x in rng.permutation(N)[: int(rng.integers(1, N + 1))]), weights_too=bool(rng.integers(0, 2)),
                                dform=["vector", "vector", "integers", "column", "row"][int(rng.integers(0, 5))])
                    for perm in itertools.permutations(range(R)):
                        yield C(w="arrange", shape=list(shp), R=R, wk="mixed", zerocol=False, weight_factor=None, perm=list(perm))
                        if R >= 2:
                            yield C(w="score", shape=list(shp), R=R, wk="positive", zerocol=False, perm=list(perm))
                    if R >= 2 and N >= 1:
                        for kind in ("zerocol-other", "zerocol-self", "disjoint", "zero-weight"):
                            if kind == "disjoint" and shp[0] < R + 1:
                                continue
                            for RB in sorted({R, max(1, R - 1)}):
                                perm = [int(x) for x in rng.permutation(R)]
                                yield C(w="score_zero", shape=list(shp), R=R, wk="positive", zerocol=False, perm=perm, kind=kind, RB=RB,
                                        wp=(kind == "zero-weight" or bool(rng.integers(0, 2))))
                    for k in range(1, R + 1):
                        for sub in itertools.combinations(range(R), k):
                            yield C(w="extract", shape=list(shp), R=R, wk="mixed", zerocol=False, idx=list(sub), form="array")
                    yield C(w="extract", shape=list(shp), R=R, wk="mixed", zerocol=False, idx=[int(rng.integers(0, R))], form="int")
                    # component lists in any order, of every length up to R (a full-length list is a permutation), with a repeat
                    for _ in range(3):
                        k_ = int(rng.integers(1, R + 1))
                        yield C(w="extract", shape=list(shp), R=R, wk="mixed", zerocol=False, idx=[int(x) for x in rng.permutation(R)[:k_]], form="array")
                    if R >= 2:
                        yield C(w="extract", shape=list(shp), R=R, wk="mixed", zerocol=False, idx=[int(x) for x in rng.permutation(R)], form="array")
                        yield C(w="extract", shape=list(shp), R=R, wk="mixed", zerocol=False, idx=[int(x) for x in rng.integers(0, R, size=R)], form="array")
                    yield C(w="extract", shape=list(shp), R=R, wk="mixed", zerocol=False, idx=list(range(R)), form="none")
                    # fixsigns against a reference: every per-mode sign pattern for every component
                    for comp in range(R):
                        for signs in itertools.product((1, -1), repeat=N):
                            yield C(w="fixsigns_ref", shape=list(shp), R=R, comp=comp, signs=list(signs), wk="positive", zerocol=False,
                                    refcomp=["same", "same", "more", "fewer"][int(rng.integers(0, 4))])


PRE = [None, "normalize-all", "normalize-mode", "redistribute", "arrange", "c-order-factors", None, "update-all", "arrange-negate", "normalize-scale-negative",
       "arrange-flip-some-weights"]
CHANGES_TENSOR = ("arrange-negate", "normalize-scale-negative", "arrange-flip-some-weights")


def gen_cases(tier, seed):
    # object history: the receiver is not always fresh from the constructor -- it may have been through another parameterisation
    # change first (which leaves differently laid-out factor matrices / absorbed weights behind)
    for i, case in enumerate(_gen_cases(tier, seed)):
        case["pre"] = PRE[(i * 5 + int(seed)) % len(PRE)]
        case["npint"] = [None, 0, None, 1, 2, None, 3, 4][(i * 3 + int(seed)) % 8]
        # badly scaled but valid parameterisations: one column tiny / huge, compensated in the weight (same array)
        case["imbalance"] = [None, None, 1e-9, None, 1e9, None, 1e-12, None, None, 1e-7, None][(i * 7 + int(seed)) % 11]
        yield case


def _prehistory(K, pre, rng):
    N = K.ndims
    if pre == "normalize-all":
        K.normalize(weight_factor="all")
    elif pre == "normalize-mode":
        K.normalize(weight_factor=int(rng.integers(0, N)))
    elif pre == "redistribute":
        K.redistribute(int(rng.integers(0, N)))
    elif pre == "arrange":
        K.arrange()
    elif pre == "c-order-factors":
        for n in range(N):
            K.factor_matrices[n] = np.ascontiguousarray(K.factor_matrices[n])
    elif pre == "update-all":
        K.update(list(range(N)), K.tovec(False).copy())
    elif pre == "arrange-negate":
        K.arrange()
        K = -K                                   # unit columns, weights all non-positive
    elif pre == "normalize-scale-negative":
        K.normalize()
        K = K * -2.5
    elif pre == "arrange-flip-some-weights":
        K.arrange()
        flip = rng.random(K.ncomponents) < 0.5
        flip[int(rng.integers(0, K.ncomponents))] = True
        K.weights[flip] *= -1.0                  # unit columns, weights of both signs
    return K


NPINTS = [np.int64, np.intp, np.int32, np.int16, np.uint8]


def _must_int(ctx, case, op, fn, *a, **k):
    """ctx.must for calls that carry a NumPy-integer argument: such an argument may be rejected (the annotations say `int`), but if it
    is accepted the promise is the same as for a Python int."""
    if case.get("npint") is None:
        return ctx.must(op, fn, *a, **k)
    r = ctx.call(op, fn, *a, **k)
    if not r.ok:
        if isinstance(r.exc, (AssertionError, TypeError, ValueError)):
            ctx.tag("numpy-integer argument rejected:" + op)
            raise CaseAbort()
        ctx.check(False, op, "RAISE:" + type(r.exc).__name__, f"{type(r.exc).__name__}: {r.exc} | {r.tb}")
        raise CaseAbort()
    return r.value


def _arg(case, v):
    """Integer arguments as callers produce them: a Python int, or the NumPy integer that `np.argmax`, `np.arange` ... hand out."""
    if isinstance(v, (int, np.integer)) and not isinstance(v, bool) and case.get("npint") is not None and int(v) >= 0:
        return NPINTS[case["npint"] % len(NPINTS)](v)
    return v


def _make(case, rng):
    shape = tuple(case["shape"])
    R = case["R"]
    fm = [gen.normals(rng, (s, R)) + 0.05 for s in shape]
    wk = case.get("wk", "mixed")
    w = np.round(rng.uniform(0.5, 3.0, R), 4)
    if wk == "mixed":
        w = w * rng.choice([-1.0, 1.0], size=R)
    elif wk == "with-zero":
        w = w * rng.choice([-1.0, 1.0], size=R)
        w[int(rng.integers(0, R))] = 0.0
    elif wk == "ones":
        w = np.ones(R)
    elif wk == "signs":
        w = rng.choice([-1.0, 1.0], size=R)
        w[int(rng.integers(0, R))] = -1.0
    if case.get("zerocol"):
        fm[int(rng.integers(0, len(shape)))][:, int(rng.integers(0, R))] = 0.0
    if case.get("imbalance") and case.get("w") not in ("score", "score_zero"):
        sc_ = float(case["imbalance"])
        n_, r_ = int(rng.integers(0, len(shape))), int(rng.integers(0, R))
        fm[n_][:, r_] *= sc_
        w[r_] = w[r_] / sc_
    return ttb.ktensor([f.copy() for f in fm], w.copy())


def _norm(v, nt):
    return np.linalg.norm(v, ord=(np.inf if nt == "inf" else nt))


def run_case(case, ctx):
    rng = np.random.default_rng(case["cseed"])
    K = _make(case, rng)
    shape = tuple(case["shape"])
    N, R = len(shape), case["R"]
    pre = case.get("pre")
    if pre and case["w"] not in ("score", "score_zero", "fixsigns_ref"):
        made = denote(K)
        K = _prehistory(K, pre, np.random.default_rng(case["cseed"] + 17))
        if pre not in CHANGES_TENSOR:
            ctx.check(close(denote(K), made, scale=float(np.max(np.abs(made))) + 1e-300, tol=TOL), "ktensor." + pre.split("-")[0], "CHANGED-TENSOR",
                      f"history step {pre} changed the denoted tensor", pre=pre)
    ctx.feat(pre=str(pre), npint=case.get("npint") is not None, imbalance=str(case.get("imbalance")))
    before = denote(K)
    scale = float(np.max(np.abs(before))) + 1e-300
    ctx.feat(N=N, R=R, wk=case.get("wk"), zerocol=case.get("zerocol", False))
    w = case["w"]

    def unchanged(op, X=None, **f):
        after = denote(K if X is None else X)
        ctx.check(after.shape == before.shape and close(after, before, scale=scale, tol=TOL), op, "CHANGED-TENSOR",
                  lambda: f"{op}: denoted tensor changed; max diff {np.max(np.abs(after - before)) if after.shape == before.shape else 'shape'}", **f)

    if w == "normalize":
        nt = case["normtype"]
        kw = {"weight_factor": _arg(case, case["weight_factor"]), "sort": case["sort"], "normtype": (np.inf if nt == "inf" else nt)}
        if case["mode"] is not None:
            kw = {"mode": _arg(case, case["mode"]), "normtype": kw["normtype"]}
        ctx.feat(weight_factor=str(case["weight_factor"]), sort=case["sort"], normtype=str(nt), single_mode=case["mode"] is not None)
        r = _must_int(ctx, case, "ktensor.normalize", K.normalize, **kw)
        ctx.check(r is K, "ktensor.normalize", "NORMAL-FORM", "normalize should return self")
        unchanged("ktensor.normalize")
        if case["mode"] is not None:
            f = K.factor_matrices[case["mode"]]
            ok = all(abs(_norm(f[:, r_], nt) - 1) < 1e-10 or np.all(f[:, r_] == 0) for r_ in range(R))
            ctx.check(ok, "ktensor.normalize", "NORMAL-FORM", "columns of the selected mode are not unit norm")
            return
        wf = case["weight_factor"]
        if wf is None:
            ok = all(abs(_norm(f[:, r_], nt) - 1) < 1e-10 or np.all(f[:, r_] == 0) for f in K.factor_matrices for r_ in range(R))
            ctx.check(ok, "ktensor.normalize", "NORMAL-FORM", "columns are not unit norm after normalize")
            ctx.check(bool(np.all(K.weights >= 0)), "ktensor.normalize", "NORMAL-FORM", f"negative weight after normalize: {K.weights}")
            if case["sort"]:
                ctx.check(bool(np.all(np.diff(K.weights) <= 1e-12)), "ktensor.normalize", "NORMAL-FORM", f"weights not descending: {K.weights}")
        else:
            ctx.check(bool(np.all(K.weights == 1.0)), "ktensor.normalize", "NORMAL-FORM", f"weights not all one after absorbing: {K.weights}")
    elif w == "arrange":
        ctx.feat(weight_factor=str(case["weight_factor"]), perm=case["perm"] is not None)
        if case["perm"] is not None:
            W0, F0 = K.weights.copy(), [f.copy() for f in K.factor_matrices]
            p = np.array(case["perm"])
            # the permutation in the forms callers hold it: array, list, tuple, and a range when it is the identity or the reversal
            forms = ["array", "list", "tuple"] + (["range"] if list(case["perm"]) in (list(range(R)), list(range(R - 1, -1, -1))) else [])
            pf = forms[gen.pick(case) % len(forms)]
            parg = p if pf == "array" else list(case["perm"]) if pf == "list" else tuple(case["perm"]) if pf == "tuple" else \
                (range(R) if list(case["perm"]) == list(range(R)) else range(R - 1, -1, -1))
            ctx.feat(perm_form=pf)
            ctx.must("ktensor.arrange", K.arrange, permutation=parg)
            ok = same(K.weights, W0[p]) and all(same(K.factor_matrices[n], F0[n][:, p]) for n in range(N))
            ctx.check(ok, "ktensor.arrange", "WRONG", "explicit permutation did not permute weights and columns exactly")
            unchanged("ktensor.arrange")
            return
        _must_int(ctx, case, "ktensor.arrange", K.arrange, weight_factor=_arg(case, case["weight_factor"]))
        unchanged("ktensor.arrange")
        if case["weight_factor"] is None:
            ctx.check(bool(np.all(K.weights >= 0)) and bool(np.all(np.diff(K.weights) <= 1e-12)), "ktensor.arrange", "NORMAL-FORM",
                      f"weights not non-negative descending: {K.weights}")
            ok = all(abs(np.linalg.norm(f[:, r_]) - 1) < 1e-10 or np.all(f[:, r_] == 0) for f in K.factor_matrices for r_ in range(R))
            ctx.check(ok, "ktensor.arrange", "NORMAL-FORM", "columns not unit norm after arrange")
        else:
            ctx.check(bool(np.all(K.weights == 1.0)), "ktensor.arrange", "NORMAL-FORM", "weights not one after absorbing")
    elif w == "redistribute":
        _must_int(ctx, case, "ktensor.redistribute", K.redistribute, _arg(case, case["mode"]))
        unchanged("ktensor.redistribute")
        ctx.check(bool(np.all(K.weights == 1.0)), "ktensor.redistribute", "NORMAL-FORM", f"weights not all one: {K.weights}")
    elif w == "vec":
        iw = case["include_weights"]
        ctx.feat(include_weights=iw)
        v = ctx.must("ktensor.tovec", K.tovec, iw)
        want_len = sum(s * R for s in shape) + (R if iw else 0)
        ctx.check(np.asarray(v).shape == (want_len,), "ktensor.tovec", "WRONG", f"vector length {np.asarray(v).shape} want {want_len}")
        want_v = np.concatenate(([K.weights] if iw else []) + [np.asarray(f)[:, r_] for f in K.factor_matrices for r_ in range(R)])
        ctx.check(np.asarray(v).shape == want_v.shape and same(np.asarray(v, dtype=float).reshape(-1), want_v), "ktensor.tovec", "WRONG",
                  "vector is not [weights;] columns of factor 0, columns of factor 1, ... stacked")
        K2 = ctx.must("ktensor.from_vector", ttb.ktensor.from_vector, np.array(v), shape, iw)
        ok = all(same(a, b) for a, b in zip(K2.factor_matrices, K.factor_matrices)) and (same(K2.weights, K.weights) if iw else bool(np.all(K2.weights == 1)))
        ctx.check(ok, "ktensor.from_vector", "WRONG", "tovec / from_vector round trip does not reproduce the object exactly")
        v2 = ctx.must("ktensor.tovec", K2.tovec, iw)
        ctx.check(same(np.asarray(v2), np.asarray(v)), "ktensor.tovec", "WRONG", "vector -> ktensor -> vector differs")
    elif w == "tolist":
        ctx.feat(mode=case["mode"] is not None)
        lst = _must_int(ctx, case, "ktensor.tolist", K.tolist, *([] if case["mode"] is None else [_arg(case, case["mode"])]))
        ok = isinstance(lst, list) and len(lst) == N and all(np.asarray(a).shape == (s, R) for a, s in zip(lst, shape))
        ctx.check(ok, "ktensor.tolist", "WRONG", "tolist does not return one (I_n x R) matrix per mode")
        if ok:
            K2 = ttb.ktensor([np.array(a) for a in lst])
            unchanged("ktensor.tolist", K2)
        unchanged("ktensor.tolist", None, receiver=True)
    elif w == "algebra":
        K2 = _make(dict(case, R=case["R2"], zerocol=False), rng)
        other = denote(K2)
        s = ctx.must("ktensor.__add__", operator.add, K, K2)
        ctx.check(close(denote(s), before + other, scale=scale + float(np.max(np.abs(other))), tol=TOL) and s.ncomponents == R + case["R2"],
                  "ktensor.__add__", "WRONG", "K + K2 is not the sum")
        d = ctx.must("ktensor.__sub__", operator.sub, K, K2)
        ctx.check(close(denote(d), before - other, scale=scale + float(np.max(np.abs(other))), tol=TOL), "ktensor.__sub__", "WRONG", "K - K2 is not the difference")
        n = ctx.must("ktensor.__neg__", operator.neg, K)
        ctx.check(close(denote(n), -before, scale=scale, tol=TOL), "ktensor.__neg__", "WRONG", "-K is not the negation")
        p = ctx.must("ktensor.__pos__", operator.pos, K)
        ctx.check(close(denote(p), before, scale=scale, tol=TOL), "ktensor.__pos__", "WRONG", "+K differs")
        products = [s, d, n, p]
        for c in (2.5, -0.5, 0.0):
            m = ctx.must("ktensor.__mul__", operator.mul, K, c)
            products.append(m)
            ctx.check(close(denote(m), before * c, scale=scale * max(abs(c), 1), tol=TOL), "ktensor.__mul__", "WRONG", f"K * {c} is not the multiple", c=c)
            m = ctx.must("ktensor.__rmul__", operator.mul, c, K)
            products.append(m)
            ctx.check(close(denote(m), before * c, scale=scale * max(abs(c), 1), tol=TOL), "ktensor.__rmul__", "WRONG", f"{c} * K is not the multiple", c=c)
        unchanged("algebra", None, receiver=True)
        # the results are objects of their own: re-parameterising them in place afterwards leaves both operands as they were
        k2dig = denote(K2)
        for obj in products:
            how = int(rng.integers(0, 3))
            (obj.normalize if how == 0 else (lambda o=obj: o.arrange()) if how == 1 else (lambda o=obj: o.redistribute(0)))()
        unchanged("algebra", None, receiver=True, after_results_changed=True)
        ctx.check(close(denote(K2), k2dig, tol=TOL), "algebra", "CHANGED-TENSOR", "second operand changed when a result was re-parameterised in place", after_results_changed=True)
    elif w == "fixsigns_alone":
        fm_before = [np.array(f, copy=True) for f in K.factor_matrices]
        if case.get("negative_dominant") is not None:
            # a prescribed number of factors whose largest-magnitude entry is negative, in every component
            k_ = int(case["negative_dominant"])
            for r_ in range(K.ncomponents):
                for n_, f in enumerate(K.factor_matrices):
                    i_ = int(np.argmax(np.abs(f[:, r_])))
                    want_neg = n_ < k_
                    if (f[i_, r_] < 0) != want_neg:
                        f[:, r_] *= -1.0
            fm_before = [np.array(f, copy=True) for f in K.factor_matrices]
            ref0 = denote(K).copy()
            ctx.feat(negative_dominant=str(k_))
        ctx.must("ktensor.fixsigns", K.fixsigns)
        if case.get("negative_dominant") is None:
            unchanged("ktensor.fixsigns", None, ref=False)
        else:
            ctx.check(close(denote(K), ref0, tol=1e-12), "ktensor.fixsigns", "CHANGED-TENSOR", "fixsigns() changed the tensor")
        # the normal form it promises: signs are flipped in pairs until at most one factor of a component is left with a negative
        # largest-magnitude entry; every column is the old column or its negative
        for r_ in range(K.ncomponents):
            neg = 0
            for n_, f in enumerate(K.factor_matrices):
                col, old = f[:, r_], fm_before[n_][:, r_]
                ctx.check(bool(np.array_equal(col, old) or np.array_equal(col, -old)), "ktensor.fixsigns", "NORMAL-FORM",
                          "a factor column is neither the old column nor its negative", which="column")
                a_ = np.abs(col)
                if a_.size and np.sum(a_ == a_.max()) == 1 and col[int(np.argmax(a_))] < 0:
                    neg += 1
            ctx.check(neg <= 1, "ktensor.fixsigns", "NORMAL-FORM",
                      lambda: f"component {r_}: {neg} factors still have a negative largest-magnitude entry after fixsigns() (pairs can be flipped)", which="pairs")
    elif w == "update":
        modes = case["modes"]
        ctx.feat(weights_too=case["weights_too"])
        newF = {m: gen.normals(rng, (shape[m], R)) for m in modes}
        neww = np.round(rng.uniform(0.5, 2, R), 4)
        dform = case.get("dform", "vector")
        ctx.feat(dform=dform)
        if dform == "integers":
            newF = {m: np.round(newF[m] * 3.0) for m in modes}
            neww = np.round(neww * 3.0) + 1.0
        parts = ([neww] if case["weights_too"] else []) + [newF[m].reshape(-1, order="F") for m in modes]
        data = np.concatenate(parts)
        # the data vector as callers hold it: integer-typed, a column, a row
        data = data.astype(np.int64) if dform == "integers" else data.reshape(-1, 1) if dform == "column" else data.reshape(1, -1) if dform == "row" else data
        marg = ([-1] if case["weights_too"] else []) + list(modes)
        F0 = [f.copy() for f in K.factor_matrices]
        W0 = K.weights.copy()
        ctx.must("ktensor.update", K.update, np.array(marg) if len(marg) > 1 else marg[0], data.copy())
        ok = all(same(K.factor_matrices[m], newF[m] if m in newF else F0[m]) for m in range(N)) and same(K.weights, neww if case["weights_too"] else W0)
        ctx.check(ok, "ktensor.update", "WRONG", "update did not replace exactly the listed modes (first index fastest) / weights")
        ctx.check(np.asarray(K.weights).ndim == 1 and np.asarray(K.weights).dtype.kind == "f" and all(np.asarray(f).dtype.kind == "f" and np.asarray(f).ndim == 2 for f in K.factor_matrices),
                  "ktensor.update", "WRONG-FORM", f"after update: weights {np.asarray(K.weights).dtype}{np.asarray(K.weights).shape}, factors {[str(np.asarray(f).dtype) for f in K.factor_matrices]}")
        # the updated object is a Kruskal tensor like any other: normalising it does not change the array it denotes
        if ok:
            before_n = denote(K)
            ctx.must("ktensor.normalize", K.normalize)
            ctx.check(close(denote(K), before_n, scale=max(1.0, float(np.max(np.abs(before_n)))), tol=TOL), "ktensor.normalize", "CHANGED-TENSOR",
                      "normalize after update changed the tensor", after_update=True)
    elif w == "extract":
        idx = case["idx"]
        ctx.feat(form=case["form"])
        arg = [] if case["form"] == "none" else ([int(idx[0])] if case["form"] == "int" else [np.array(idx)])
        E = ctx.must("ktensor.extract", K.extract, *arg)
        ok = same(E.weights, K.weights[idx]) and all(same(E.factor_matrices[n], K.factor_matrices[n][:, idx]) for n in range(N))
        ctx.check(ok, "ktensor.extract", "WRONG", f"extract({idx}) is not the selected components")
        want = np.zeros(shape)
        for r_ in idx:
            comp = K.weights[r_]
            for n in range(N):
                comp = np.multiply.outer(comp, K.factor_matrices[n][:, r_]) if n else K.weights[r_] * K.factor_matrices[0][:, r_]
            want = want + comp
        ctx.check(close(denote(E), want, scale=scale, tol=TOL), "ktensor.extract", "WRONG", "extracted components denote another tensor")
    elif w == "score":
        p = np.array(case["perm"])
        K.normalize()
        O = K.copy()
        O.arrange(permutation=p)
        r = ctx.must("ktensor.score", K.score, O)
        sc, A, flag, best = r
        ctx.check(abs(float(sc) - 1.0) < 1e-8, "ktensor.score", "WRONG", f"score of a component-permuted copy is {sc}, want 1")
        unchanged("ktensor.score", A, aligned=True)
        # the aligned copy must match `other` component by component
        ok = all(close(A.factor_matrices[n][:, : O.ncomponents], O.factor_matrices[n], tol=1e-8) for n in range(N))
        ctx.check(ok, "ktensor.score", "WRONG", f"aligned copy does not recover the permutation (perm {best})")
    elif w == "score_zero":
        # exact-zero congruences: the greedy matching must still return a permutation and a re-ordered copy of the receiver
        kind, RB = case["kind"], case["RB"]
        ctx.feat(kind=kind, RB_lt_RA=(RB < R), weight_penalty=case["wp"])
        p = np.array(case["perm"])
        if kind == "disjoint":
            # component supports are disjoint in mode 0 (needs I_0 >= R + 1): cross congruences are exactly 0
            F0 = np.zeros((shape[0], R))
            for r_ in range(R):
                F0[r_, r_] = 1.0 + 0.25 * r_
            K.factor_matrices[0] = F0
        K.normalize()
        O = K.copy()
        O.arrange(permutation=p)
        O = O.extract(np.arange(RB)) if RB < R else O
        j = int(rng.integers(0, RB))
        if kind == "zerocol-other":
            O.factor_matrices[int(rng.integers(0, N))][:, j] = 0.0
        elif kind == "zerocol-self":
            K.factor_matrices[int(rng.integers(0, N))][:, int(rng.integers(0, R))] = 0.0
        elif kind == "disjoint":
            O.factor_matrices[0][:, j] = 0.0
            O.factor_matrices[0][shape[0] - 1, j] = 1.0          # orthogonal to every component of the receiver
        elif kind == "zero-weight":
            O.weights[j] = 0.0
        before = denote(K)
        scale = float(np.max(np.abs(before))) + 1e-300
        r = ctx.call("ktensor.score", K.score, O, weight_penalty=case["wp"])
        if not r.ok:
            ctx.check(False, "ktensor.score", "RAISE:" + type(r.exc).__name__, f"{type(r.exc).__name__}: {r.exc} | {r.tb}")
            return
        sc, A, flag, best = r.value
        ctx.check(sorted(int(x) for x in np.asarray(best).reshape(-1)) == list(range(R)), "ktensor.score", "NOT-A-PERMUTATION",
                  f"matching {np.asarray(best).tolist()} is not a permutation of the receiver's {R} components")
        ctx.check(isinstance(A, ttb.ktensor) and A.ncomponents == R, "ktensor.score", "WRONG", "re-ordered copy has the wrong number of components")
        unchanged("ktensor.score", A, aligned=True)
        unchanged("ktensor.score", None, receiver=True)
        ctx.check(0.0 <= float(sc) <= 1.0 + 1e-12, "ktensor.score", "WRONG", f"score {sc} outside [0, 1]")
    elif w == "fixsigns_ref":
        comp, signs = case["comp"], case["signs"]
        nneg = sum(1 for s in signs if s < 0)
        ctx.feat(nneg=nneg, odd=bool(nneg % 2), all_neg=(nneg == N))
        # reference = copy of K with the chosen factors of component `comp` negated
        O = K.copy()
        for n, s in enumerate(signs):
            O.factor_matrices[n][:, comp] *= s
        rc = case.get("refcomp", "same")
        if rc == "more":
            # a reference with a surplus component: the common ones are matched by position
            O = ttb.ktensor([np.hstack([f, gen.normals(rng, (f.shape[0], 1))]) for f in O.factor_matrices], np.concatenate([O.weights, [0.7]]))
        elif rc == "fewer" and R >= 2 and comp < R - 1:
            O = ttb.ktensor([f[:, : R - 1].copy() for f in O.factor_matrices], O.weights[: R - 1].copy())
        else:
            rc = "same"
        ctx.feat(refcomp=rc)
        Obefore = denote(O)
        ctx.must("ktensor.fixsigns", K.fixsigns, O)
        unchanged("ktensor.fixsigns", None, ref=True)
        # sign fixing against a reference normalises the receiver first (whatever the reference is: also a copy of the receiver itself)
        okn = all(abs(np.linalg.norm(f[:, r_]) - 1) < 1e-10 or np.all(f[:, r_] == 0) for f in K.factor_matrices for r_ in range(K.ncomponents))
        ctx.check(okn and bool(np.all(K.weights >= 0)), "ktensor.fixsigns", "NORMAL-FORM", f"after fixsigns(reference): columns not unit norm or a negative weight ({K.weights})",
                  ref=True, ref_equals_receiver=bool(nneg == 0 and rc == "same"))
        ctx.check(close(denote(O), Obefore, scale=scale, tol=TOL), "ktensor.fixsigns", "CHANGED-TENSOR", "reference tensor changed", ref=True, which="other")
