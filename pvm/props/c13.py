"""C13 -- GCP solvers keep the best model, respect bounds, sample validly and are reusable."""
import itertools
import logging

import numpy as np

from .. import load
from .. import gen
from ..denote import denote
from ..mutsan import state_digest

np_, ttb = load()
from pyttb.gcp import optimizers as OPT  # noqa: E402
from pyttb.gcp import samplers as SAM  # noqa: E402
from pyttb.gcp.fg import evaluate  # noqa: E402
from pyttb.gcp.fg_est import estimate as real_estimate  # noqa: E402
from pyttb.gcp.fg_setup import setup as fg_setup  # noqa: E402
from pyttb.gcp.handles import Objectives  # noqa: E402

logging.disable(logging.CRITICAL)
ID = "C13"
RULE = ("case = sampler draw (data dense/sparse N=2..3, fill from nearly empty to nearly full, sampler kind uniform/stratified/semi-stratified, "
        "requested counts 1 .. several times the available zeros/nonzeros) | stochastic solve (SGD/Adam/Adagrad, loss with finite or infinite lower "
        "bound, rate chosen so that some epochs fail, max_fails 0..2, epoch_iters 1..5, max_iters 1..6) with every function estimate tapped | "
        "L-BFGS-B solve | reuse sequence of 2-3 solves on one optimizer object vs fresh objects under the same global seed; distinct = hash of case")
ANCHORS = ["gcp.optimizers:StochasticSolver.solve", "gcp.optimizers:SGD.update_step", "gcp.optimizers:Adam.update_step",
           "gcp.optimizers:Adagrad.update_step", "gcp.optimizers:LBFGSB.solve", "gcp.samplers:uniform", "gcp.samplers:stratified",
           "gcp.samplers:semistrat", "gcp.samplers:zeros", "gcp.samplers:nonzeros", "gcp.samplers:GCPSampler.__init__", "gcp_opt:gcp_opt",
           "gcp.fg_est:estimate"]
WATCHDOG = {"quick": 900, "thorough": 3400}


def nontrivial(case):
    return True


def gen_cases(tier, seed):
    rng = gen.rng_for(seed, ID, tier)
    cs = itertools.count(1)

    def C(**kw):
        kw["cseed"] = int(seed) * 982451653 % (2 ** 31) + next(cs)
        kw["gseed"] = int(rng.integers(0, 2 ** 31))
        return kw

    ns = 60 if tier == "quick" else 600
    for i in range(ns):
        N = int(rng.integers(2, 4))
        shape = [int(s) for s in rng.integers(2, 5, size=N)]
        fill = ["nearly-empty", "some", "half", "nearly-full", "full"][i % 5]
        for kind in ("uniform-dense", "uniform-sparse", "stratified", "semistrat", "uniform-fn+stratified", "uniform-fn+semistrat"):
            yield C(w="sampler", shape=shape, fill=fill, kind=kind, nfun=int(rng.choice([1, 3, 10, 40])), ngrad=int(rng.choice([1, 2, 7, 30])),
                    stratcount=bool(rng.integers(0, 2)))
    nsol = 40 if tier == "quick" else 400
    losses = [("GAUSSIAN", None), ("POISSON", None), ("RAYLEIGH", None), ("GAMMA", None), ("BERNOULLI_LOGIT", None)]
    for i in range(nsol):
        N = int(rng.integers(2, 4))
        shape = [int(s) for s in rng.integers(2, 5, size=N)]
        loss, par = losses[i % len(losses)]
        yield C(w="solve", shape=shape, loss=loss, par=par, solver=["SGD", "Adam", "Adagrad"][i % 3], sparse=bool((i // 3) % 2),
                rate=float(rng.choice([1e-3, 1e-2, 0.3, 3.0])), max_fails=int(rng.integers(0, 3)), epoch_iters=int(rng.integers(1, 6)),
                max_iters=int(rng.integers(1, 7)), R=int(rng.integers(1, 3)), via_gcp_opt=bool(i % 4 == 0),
                f_est_tol=[None, None, "above-start", "below-start"][int(rng.integers(0, 4))],
                sampler=[None, None, "strat/strat", "strat/semistrat", "strat/semistrat", "uniform/uniform"][int(rng.integers(0, 6))])
    # solves in which epochs fail and later ones recover in part (large steps, several failures allowed, enough epochs): what counts
    # as a failed epoch is decided against the best estimate so far, not against the epoch before
    for rep in range(1 if tier == "quick" else 6):
        i = 0
        for solver in ("SGD", "Adam", "Adagrad"):
            for sp in (False, True):
                for tolk in (None, "above-start", "below-start"):
                    # (every tolerance kind, and with sparse data every pairing of samplers, under every solver)
                    for smp in ((None, "strat/strat", "strat/semistrat") if sp else (None, "uniform/uniform")):
                        i += 1
                        if tier == "quick" and smp is not None and tolk == "below-start":
                            continue
                        N = int(rng.integers(2, 4))
                        shape = [int(s) for s in rng.integers(2, 5, size=N)]
                        loss, par = losses[i % 2]
                        yield C(w="solve", shape=shape, loss=loss, par=par, solver=solver, sparse=sp,
                                rate={"SGD": 0.2, "Adam": 1.0, "Adagrad": 2.0}[solver] * float(rng.choice([0.5, 1.0, 2.0])), max_fails=3,
                                epoch_iters=int(rng.integers(1, 4)), max_iters=8, R=int(rng.integers(1, 3)), via_gcp_opt=bool(i % 6 == 0), f_est_tol=tolk,
                                sampler=smp, failing=True)
    # line searches limited to a single trial (most are abandoned: the last point evaluated is then usually worse than the start)
    rngl = gen.rng_for(seed, ID, tier, "maxls-1")
    for i in range(24 if tier == "quick" else 160):
        shape = [int(s) for s in rngl.integers(2, 5, size=3)]
        loss, par = losses[0] if i % 2 == 0 else losses[1 + (i // 2) % 3]          # (every other one least squares: real-valued data of both signs)
        yield C(w="lbfgsb", shape=shape, loss=loss, par=par, R=2, maxiter=int(rngl.integers(1, 6)), masked=bool(i % 6 == 5),
                maxls=1, via_gcp_opt=bool(i % 2), mask_form=["ndarray", "tensor"][(i // 2) % 2])
    # caller-supplied bounds of either sign under every stochastic solver, directly and through gcp_opt (own random stream)
    rngb = gen.rng_for(seed, ID, tier, "custom-bound")
    for rep in range(1 if tier == "quick" else 8):
        for solver in ("SGD", "Adam", "Adagrad"):
            for lbv in (-0.5, -2.0, 0.0, 0.3):
                for via in (False, True):
                    shape = [int(s) for s in rngb.integers(2, 5, size=int(rngb.integers(2, 4)))]
                    yield C(w="solve", shape=shape, loss="GAUSSIAN", par=None, solver=solver, sparse=False,
                            rate={"SGD": 0.05, "Adam": 0.3, "Adagrad": 0.5}[solver], max_fails=2, epoch_iters=int(rngb.integers(3, 8)),
                            max_iters=6, R=int(rngb.integers(1, 3)), via_gcp_opt=via, f_est_tol=None, sampler=None, custom_lb=lbv)
    for i in range(24 if tier == "quick" else 160):
        shape = [int(s) for s in rng.integers(2, 5, size=int(rng.integers(2, 4)))]
        loss, par = losses[i % 4]
        yield C(w="lbfgsb", shape=shape, loss=loss, par=par, R=int(rng.integers(1, 3)), maxiter=int(rng.integers(1, 8)), masked=bool(i % 3 == 0),
                maxls=[None, None, 1, 2, 3][int(rng.integers(0, 5))], via_gcp_opt=bool(i % 2), mask_form=["ndarray", "tensor"][(i // 2) % 2])
    for i in range(8 if tier == "quick" else 48):
        shape = [int(s) for s in rng.integers(2, 5, size=int(rng.integers(2, 4)))]
        yield C(w="lbfgsb", shape=shape, loss="GAUSSIAN", par=None, R=int(rng.integers(1, 3)), maxiter=int(rng.integers(8, 30)), masked=bool(i % 4 == 3),
                maxls=None, via_gcp_opt=bool(i % 2 == 0), mask_form=["ndarray", "tensor"][(i // 2) % 2], active_bound=True)
    for i in range(24 if tier == "quick" else 240):
        yield C(w="reuse", solver=["SGD", "Adam", "Adagrad", "LBFGSB"][i % 4], loss=["GAUSSIAN", "POISSON"][(i // 4) % 2],
                shapes=[[int(s) for s in rng.integers(2, 5, size=int(rng.integers(2, 4)))] for _ in range(3)], same_size=bool(i % 2),
                rate=float(rng.choice([1e-2, 0.5])), nsolves=int(rng.integers(2, 4)))
    # step sizes at which epochs fail (the estimate goes up): what a solve remembers about failed epochs (their count, the decayed
    # step) must not reach the next solve on the same object
    for i in range(12 if tier == "quick" else 60):
        yield C(w="reuse", solver=["SGD", "Adam", "Adagrad"][i % 3], loss=["GAUSSIAN", "POISSON"][(i // 3) % 2],
                shapes=[[int(s) for s in rng.integers(2, 5, size=int(rng.integers(2, 4)))] for _ in range(3)], same_size=bool((i // 6) % 2),
                rate=[0.7, 3.0, 3.0][i % 3] * float(rng.choice([1.0, 2.0])), nsolves=3, max_iters=5, failing_rate=True)
    for i in range(8 if tier == "quick" else 40):
        yield C(w="reuse", solver=["LBFGSB", "SGD", "Adam", "Adagrad"][i % 4], loss="GAUSSIAN", shapes=[[int(s) for s in rng.integers(2, 5, size=3)] for _ in range(2)],
                same_size=bool(i % 2), rate=1e-2, nsolves=2, failed_first=True, maxiter=6)
    # solves of very different sizes on one L-BFGS-B object, run to convergence: any tolerance or workspace remembered from an earlier
    # (larger or smaller) problem changes where the later solve stops
    for i in range(6 if tier == "quick" else 40):
        big = [int(s) for s in rng.integers(6, 10, size=3)]
        small = [int(s) for s in rng.integers(2, 4, size=int(rng.integers(2, 4)))]
        yield C(w="reuse", solver="LBFGSB", loss=["GAUSSIAN", "POISSON"][i % 2], shapes=[big, small, big][i % 2:] + [small], same_size=False,
                rate=0.0, nsolves=3, maxiter=[300, 60, 1000][i % 3])


def _data_array(rng, shape, fill, loss="GAUSSIAN"):
    n = int(np.prod(shape))
    frac = {"nearly-empty": 1.0 / n, "some": 0.3, "half": 0.5, "nearly-full": 1 - 1.0 / n, "full": 1.0}[fill]
    k = max(1, min(n, int(round(frac * n))))
    A = np.zeros(n)
    pos = rng.choice(n, size=k, replace=False)
    A[pos] = rng.integers(1, 6, size=k).astype(float)
    return A.reshape(shape)


def _loss_data(rng, shape, loss):
    if loss in ("POISSON",):
        return rng.poisson(2.0, size=shape).astype(float)
    if loss == "BERNOULLI_LOGIT":
        return (rng.random(shape) < 0.5).astype(float)
    if loss in ("RAYLEIGH", "GAMMA"):
        return rng.uniform(0.2, 3.0, size=shape)
    return rng.standard_normal(shape)


def run_case(case, ctx):
    rng = np.random.default_rng(case["cseed"])
    np.random.seed(case["gseed"])
    globals()["_w_" + case["w"]](case, ctx, rng)


# ------------------------------------------------------------------ samplers -------------------
def _check_sample(ctx, op, sample, A, kind, stratum_sizes=None, **f):
    ok = isinstance(sample, tuple) and len(sample) == 3
    ctx.check(ok, op, "SAMPLE-FORM", f"sample is {type(sample).__name__}", **f)
    if not ok:
        return
    subs, vals, wgts = (np.asarray(x) for x in sample)
    vals = np.atleast_1d(vals)
    p = subs.shape[0] if subs.ndim == 2 else -1
    ctx.check(subs.ndim == 2 and subs.shape[1] == A.ndim and vals.reshape(-1).shape[0] == p and wgts.reshape(-1).shape[0] == p, op, "SAMPLE-COUNT",
              f"subs {subs.shape}, vals {vals.shape}, weights {wgts.shape}: not one value and one weight per sampled subscript", **f)
    if not (subs.ndim == 2 and subs.shape[1] == A.ndim) or p <= 0:
        return
    inside = subs.dtype.kind in "iu" and bool((subs >= 0).all()) and bool((subs < np.array(A.shape)).all())
    ctx.check(inside, op, "SAMPLE-OUTSIDE", f"subscript outside the tensor: min {subs.min(axis=0).tolist()} max {subs.max(axis=0).tolist()} shape {A.shape}", **f)
    if not inside or vals.reshape(-1).shape[0] != p:
        return
    truth = A[tuple(subs.T)]
    v = vals.reshape(-1)
    if kind == "semistrat":
        nnzs = stratum_sizes[0]
        ctx.check(bool(np.array_equal(v[:nnzs], truth[:nnzs])), op, "SAMPLE-VALUE", "nonzero stratum values differ from the data", **f)
    else:
        ctx.check(bool(np.array_equal(v, truth)), op, "SAMPLE-VALUE",
                  lambda: f"values {v.tolist()} differ from the data at the sampled subscripts {truth.tolist()}", **f)
    if wgts.reshape(-1).shape[0] == p:
        tot = float(np.sum(wgts))
        size, nnz = A.size, int(np.count_nonzero(A))
        if kind.startswith("uniform-dense"):
            want = float(size)
        elif kind == "semistrat":
            want = float(nnz + size)
        else:
            want = None
            if stratum_sizes is not None:
                want = float((nnz if stratum_sizes[0] > 0 else 0) + ((size - nnz) if stratum_sizes[1] > 0 else 0))
        if want is not None:
            ctx.check(abs(tot - want) <= 1e-9 * max(want, 1), op, "SAMPLE-WEIGHTS", f"weights total {tot!r}, the sample stands for {want!r} entries", **f)


def _w_sampler(case, ctx, rng):
    shape = tuple(case["shape"])
    A = _data_array(rng, shape, case["fill"])
    nnz, size = int(np.count_nonzero(A)), A.size
    kind = case["kind"]
    ctx.feat(kind=kind, fill=case["fill"], nzeros=("0" if size == nnz else "1" if size - nnz == 1 else "2+"))
    nf, ng = case["nfun"], case["ngrad"]
    if kind == "uniform-dense":
        data = ttb.tensor(A.copy())
        mk = lambda: SAM.GCPSampler(data, SAM.Samplers.UNIFORM, nf, SAM.Samplers.UNIFORM, ng)  # noqa: E731
    else:
        data = gen.mk_sptensor(ttb, A, gen.stored_order(rng, nnz, "shuffled"))
        if kind == "uniform-sparse":
            mk = lambda: SAM.GCPSampler(data, SAM.Samplers.UNIFORM, nf, SAM.Samplers.UNIFORM, ng)  # noqa: E731
        elif kind == "stratified":
            fa = SAM.StratifiedCount(nf, max(0, nf - 1)) if case["stratcount"] else nf
            ga = SAM.StratifiedCount(ng, ng + 2) if case["stratcount"] else ng
            mk = lambda: SAM.GCPSampler(data, SAM.Samplers.STRATIFIED, fa, SAM.Samplers.STRATIFIED, ga)  # noqa: E731
        elif kind in ("uniform-fn+stratified", "uniform-fn+semistrat"):
            # the two samplers are chosen independently: a uniform function sampler beside a (semi-)stratified gradient sampler
            gk = SAM.Samplers.STRATIFIED if kind.endswith("+stratified") else SAM.Samplers.SEMISTRATIFIED
            ga = SAM.StratifiedCount(ng, ng + 2) if (case["stratcount"] and kind.endswith("+stratified")) else ng
            mk = lambda: SAM.GCPSampler(data, SAM.Samplers.UNIFORM, nf, gk, ga)  # noqa: E731
        else:
            mk = lambda: SAM.GCPSampler(data, SAM.Samplers.STRATIFIED, nf, SAM.Samplers.SEMISTRATIFIED, ng)  # noqa: E731
    r = ctx.call("GCPSampler", mk)
    if not r.ok:
        ctx.check(False, "GCPSampler", "RAISE:" + type(r.exc).__name__, f"{type(r.exc).__name__}: {r.exc} | {r.tb}")
        return
    S = r.value
    ddig = state_digest(data)
    for rep in range(3):
        for which, n_ in (("function_sample", nf), ("gradient_sample", ng)):
            rr = ctx.call(f"GCPSampler.{which}", getattr(S, which), data)
            if not rr.ok:
                ctx.check(False, f"GCPSampler.{which}", "RAISE:" + type(rr.exc).__name__, f"{type(rr.exc).__name__}: {rr.exc} | {rr.tb}", which=which)
                continue
            k2 = kind
            strat = None
            if kind == "uniform-sparse":
                k2 = "uniform-dense" if which == "function_sample" else "poisson-strat"
            elif kind == "stratified":
                cnt = (fa if which == "function_sample" else ga)
                strat = (cnt.num_nonzeros, cnt.num_zeros) if case["stratcount"] else (n_, n_)
            elif kind in ("uniform-fn+stratified", "uniform-fn+semistrat"):
                if which == "function_sample":
                    k2 = "uniform-dense"
                else:
                    k2 = "stratified" if kind.endswith("+stratified") else "semistrat"
                    strat = (ga.num_nonzeros, ga.num_zeros) if isinstance(ga, SAM.StratifiedCount) else (ng, ng)
            elif kind == "semistrat":
                if which == "function_sample":
                    k2, strat = "stratified", (nf, nf)
                else:
                    strat = (ng, ng)
            _check_sample(ctx, f"GCPSampler.{which}", rr.value, A, k2, strat, which=which)
    ctx.check(state_digest(data) == ddig, "GCPSampler", "MUTATED", "sampling changed the data")
    # every draw comes from the global stream: the same seed reproduces the same sequence of samples
    seqs = []
    for _rep in range(2):
        np.random.seed(case["cseed"] % (2 ** 31))
        S2 = mk()
        seq = []
        for which in ("function_sample", "gradient_sample", "gradient_sample", "function_sample"):
            rr = ctx.call(f"GCPSampler.{which}", getattr(S2, which), data)
            seq.append(tuple(np.asarray(x).tolist() for x in rr.value) if rr.ok else None)
        seqs.append(seq)
    ctx.check(seqs[0] == seqs[1], "GCPSampler", "NOT-REPRODUCIBLE", "the same global seed gives another sequence of samples")
    if kind != "uniform-dense" and 0 < nnz < size:
        # the stratum samplers called directly, with and without replacement
        from pyttb.pyttb_utils import tt_sub2ind

        nzidx = np.sort(tt_sub2ind(data.shape, data.subs))
        # the two-stratum samplers called directly with the smallest requests: one sample in all, none from one stratum
        for nnz_req, nz_req in ((1, 0), (0, 1), (1, 1), (0, 3), (2, 0)):
            for sname, call in (("stratified", lambda a=nnz_req, b=nz_req: SAM.stratified(data, nzidx, a, b)), ("semistrat", lambda a=nnz_req, b=nz_req: SAM.semistrat(data, a, b))):
                rr = ctx.call("samplers." + sname, call)
                if not rr.ok:
                    ctx.check(False, "samplers." + sname, "RAISE:" + type(rr.exc).__name__, f"{type(rr.exc).__name__}: {rr.exc} | {rr.tb}", request=f"{nnz_req}+{nz_req}")
                    continue
                ss, sv, sw = (np.asarray(x) for x in rr.value)
                p_ = ss.shape[0] if ss.ndim == 2 else -1
                ctx.check(ss.ndim == 2 and sv.shape == (p_,) and sw.shape == (p_,) and p_ <= nnz_req + nz_req, "samplers." + sname, "SAMPLE-COUNT",
                          f"request {nnz_req}+{nz_req}: subs {ss.shape}, vals {sv.shape}, weights {sw.shape} (one value and one weight per sample)", request=f"{nnz_req}+{nz_req}")
                if ss.ndim == 2 and sv.shape == (p_,) and p_ > 0:
                    if nnz_req and nz_req:
                        _check_sample(ctx, "samplers." + sname, rr.value, A, sname, (nnz_req, nz_req), request=f"{nnz_req}+{nz_req}")
                    else:
                        # one stratum only: the weights stand for that stratum alone, so only placement and values are judged
                        ins_ = bool((ss >= 0).all()) and bool((ss < np.array(A.shape)).all())
                        ctx.check(ins_, "samplers." + sname, "SAMPLE-OUTSIDE", f"subscript outside the tensor for request {nnz_req}+{nz_req}", request=f"{nnz_req}+{nz_req}")
                        if ins_ and (nnz_req or sname == "stratified"):
                            ctx.check(bool(np.array_equal(sv, A[tuple(ss.T)])), "samplers." + sname, "SAMPLE-VALUE", "sample values differ from the data at the sampled subscripts",
                                      request=f"{nnz_req}+{nz_req}")
        for wr in (True, False):
            want_n = int(min(max(1, ng), max(1, (size - nnz) // 2) if not wr else 10 ** 9))      # (close to all zeros without replacement is a documented rejection)
            rr = ctx.call("samplers.zeros", SAM.zeros, data, nzidx, want_n, with_replacement=wr)
            if rr.ok:
                zs = np.asarray(rr.value)
                okz = zs.ndim == 2 and zs.shape[1] == A.ndim and zs.shape[0] <= want_n and bool((zs >= 0).all()) and bool((zs < np.array(A.shape)).all())
                ctx.check(okz, "samplers.zeros", "SAMPLE-OUTSIDE", f"zero sample of shape {zs.shape} for {want_n} requested", with_replacement=wr)
                if okz and zs.shape[0]:
                    ctx.check(bool(np.all(A[tuple(zs.T)] == 0)), "samplers.zeros", "SAMPLE-VALUE", "an entry drawn as a zero is a stored nonzero of the data", with_replacement=wr)
                    if not wr:
                        ctx.check(len({tuple(r_) for r_ in zs.tolist()}) == zs.shape[0], "samplers.zeros", "SAMPLE-REPEATS", "repeated subscripts in a sample drawn without replacement",
                                  with_replacement=wr)
            elif isinstance(rr.exc, ValueError) and not wr and ("too many zero samples" in str(rr.exc) or "Cannot sample more" in str(rr.exc)):
                ctx.tag("zeros-without-replacement:documented-rejection")
            else:
                ctx.check(False, "samplers.zeros", "RAISE:" + type(rr.exc).__name__, f"{type(rr.exc).__name__}: {rr.exc} | {rr.tb}", with_replacement=wr)
            want_nz = int(min(max(1, ng), nnz))
            rr = ctx.call("samplers.nonzeros", SAM.nonzeros, data, want_nz, wr)
            if rr.ok:
                ns, nv = (np.asarray(x) for x in rr.value)
                okn = ns.ndim == 2 and ns.shape == (want_nz, A.ndim) and bool((ns >= 0).all()) and bool((ns < np.array(A.shape)).all())
                ctx.check(okn, "samplers.nonzeros", "SAMPLE-OUTSIDE", f"nonzero sample of shape {ns.shape} for {want_nz} requested", with_replacement=wr)
                if okn:
                    ctx.check(bool(np.array_equal(nv.reshape(-1), A[tuple(ns.T)])) and bool(np.all(A[tuple(ns.T)] != 0)), "samplers.nonzeros", "SAMPLE-VALUE",
                              "values of the nonzero sample are not the stored values at its subscripts", with_replacement=wr)
                    if not wr:
                        ctx.check(len({tuple(r_) for r_ in ns.tolist()}) == ns.shape[0], "samplers.nonzeros", "SAMPLE-REPEATS", "repeated subscripts without replacement", with_replacement=wr)
            else:
                ctx.check(False, "samplers.nonzeros", "RAISE:" + type(rr.exc).__name__, f"{type(rr.exc).__name__}: {rr.exc} | {rr.tb}", with_replacement=wr)


# ------------------------------------------------------------------ solves ---------------------
class Tap:
    """Tap on gcp.optimizers.estimate: logs every function estimate with a copy of the model it was given."""

    def __init__(self):
        self.fcalls = []
        self.sample = None

    def __enter__(self):
        self.orig = OPT.estimate

        def tapped(model, subs, vals, wgts, function_handle=None, gradient_handle=None, lambda_check=True, crng=None):
            out = self.orig(model, subs, vals, wgts, function_handle, gradient_handle, lambda_check, crng)
            if function_handle is not None and gradient_handle is None:
                if self.sample is None:
                    self.sample = (np.array(subs), np.array(vals), np.array(wgts))
                same_sample = np.array_equal(subs, self.sample[0]) and np.array_equal(np.asarray(vals), self.sample[1])
                self.fcalls.append((float(out), model.copy(), same_sample))
            return out
        OPT.estimate = tapped
        return self

    def __exit__(self, *a):
        OPT.estimate = self.orig


def _mk_solver(name, **kw):
    return getattr(OPT, name)(printitn=0, **kw)


def _w_solve(case, ctx, rng):
    shape = tuple(case["shape"])
    loss, R = case["loss"], case["R"]
    Xd = _loss_data(rng, shape, loss)
    if case.get("custom_lb") is not None:
        # least squares on data with a strongly negative slice: the iterates are pushed below any finite bound on the factors
        Xd = np.abs(Xd) + 0.5
        Xd[int(rng.integers(0, shape[0]))] *= -4.0
    sparse = case["sparse"] and loss in ("GAUSSIAN", "POISSON")
    if sparse:
        Xd = Xd * (rng.random(shape) < 0.6)
        if np.count_nonzero(Xd) == 0:
            Xd.reshape(-1)[0] = 1.0
        if np.count_nonzero(Xd) == Xd.size:
            Xd.reshape(-1)[-1] = 0.0
        X = gen.mk_sptensor(ttb, Xd, gen.stored_order(rng, int(np.count_nonzero(Xd)), "shuffled"))
    else:
        X = ttb.tensor(Xd.copy())
    fh, gh, lb = fg_setup(getattr(Objectives, loss), None, case["par"])
    objective = getattr(Objectives, loss)
    if case.get("custom_lb") is not None:
        # a caller-supplied objective (function, gradient, lower bound) with a bound of the caller's choosing: negative, zero, positive
        lb = float(case["custom_lb"])
        objective = (fh, gh, lb)
        ctx.feat(custom_lb=("neg" if lb < 0 else "0" if lb == 0 else "pos"))
    M0 = ttb.ktensor([rng.uniform(max(0.2, lb + 0.1), max(1.0, lb + 1.0), size=(s, R)) for s in shape])
    kwtol = {}
    if case.get("f_est_tol") is not None:
        # a loose (non-default) tolerance relative to the exact objective of the start: above it (the run may stop at once) or below it
        f_start = float(evaluate(M0, X, None, fh, None))
        kwtol["f_est_tol"] = f_start * (3.0 if f_start > 0 else 0.3) + 1.0 if case["f_est_tol"] == "above-start" else f_start * (0.5 if f_start > 0 else 2.0) - 1.0
    solver = _mk_solver(case["solver"], rate=case["rate"], max_fails=case["max_fails"], epoch_iters=case["epoch_iters"], max_iters=case["max_iters"], **kwtol)
    ctx.feat(f_est_tol=case.get("f_est_tol"))
    ctx.feat(solver=case["solver"], loss=loss, sparse=sparse, finite_lb=bool(np.isfinite(lb)), via_gcp_opt=case["via_gcp_opt"])
    m0dig = state_digest(M0)
    xdig = state_digest(X)
    smp = None
    skind = case.get("sampler")
    if skind and sparse:
        nnz_, nz_ = int(X.nnz), int(Xd.size - X.nnz)
        cnt = SAM.StratifiedCount(max(1, nnz_ // 2), max(1, nnz_ // 2))
        fsam = SAM.StratifiedCount(max(1, nnz_), max(1, min(nz_, nnz_)))
        if skind == "strat/strat":
            smp = SAM.GCPSampler(X, SAM.Samplers.STRATIFIED, fsam, SAM.Samplers.STRATIFIED, cnt)
        elif skind == "strat/semistrat":
            smp = SAM.GCPSampler(X, SAM.Samplers.STRATIFIED, fsam, SAM.Samplers.SEMISTRATIFIED, cnt)
        else:
            smp = SAM.GCPSampler(X, SAM.Samplers.UNIFORM, max(2, Xd.size // 2), SAM.Samplers.UNIFORM, max(2, Xd.size // 3))
    ctx.feat(sampler=(skind if smp is not None else "default"))
    with Tap() as tap:
        if case["via_gcp_opt"]:
            r = ctx.call("gcp_opt", ttb.gcp_opt, X, R, objective, solver, init=M0.copy(), printitn=0, **({} if smp is None else {"sampler": smp}))
        else:
            r = ctx.call(case["solver"] + ".solve", solver.solve, M0, X, fh, gh, lb, *([] if smp is None else [smp]))
    op = "gcp_opt" if case["via_gcp_opt"] else case["solver"] + ".solve"
    if not r.ok:
        if isinstance(r.exc, ValueError) and "Infinite gradient" in str(r.exc):
            ctx.tag("diverged")
            return
        ctx.check(False, op, "RAISE:" + type(r.exc).__name__, f"{type(r.exc).__name__}: {r.exc} | {r.tb}")
        return
    M, info = (r.value[0], r.value[2]) if case["via_gcp_opt"] else r.value
    ctx.check(state_digest(X) == xdig, op, "MUTATED", "data changed", who="data")
    if not case["via_gcp_opt"]:
        ctx.check(state_digest(M0) == m0dig, op, "MUTATED", "initial model changed", who="guess")
    calls = tap.fcalls
    ctx.check(len(calls) >= 2 and all(c[2] for c in calls), op, "SAMPLE-CHANGED", "the function sample is not fixed across the solve")
    if len(calls) < 2:
        return
    f0 = calls[0][0]
    epoch_vals = [c[0] for c in calls[1:]]
    trace = np.asarray(info["f_est_trace"], dtype=float).reshape(-1)
    nfail = sum(1 for a, b in zip([f0] + _running_best(f0, epoch_vals)[:-1], epoch_vals) if not b <= a)
    ctx.tag("failed-epochs>0" if nfail else "no-failed-epoch")
    ctx.feat(last_epoch_best=bool(epoch_vals and epoch_vals[-1] <= np.nanmin([f0] + epoch_vals[:-1])), nfail=min(nfail, 2),
             nan_epoch=bool(np.isnan(epoch_vals).any()))
    want_trace = np.array([f0] + epoch_vals)
    ctx.check(len(trace) == len(want_trace) and bool(np.array_equal(trace, want_trace, equal_nan=True)), op, "WRONG-TRACE",
              lambda: f"reported trace {trace.tolist()} vs start value + one value per completed epoch {want_trace.tolist()}")
    fs, fv, fw = tap.sample
    # the function estimates themselves, recomputed from the definition sum_i w_i f(x_i, m_i) on the recorded sample
    xs = Xd[tuple(np.asarray(fs).T)]
    ctx.check(np.asarray(fv).size == xs.size and bool(np.array_equal(np.asarray(fv, dtype=float).reshape(-1), xs)), op, "WRONG-SAMPLE-VALUES",
              "the values of the function sample are not the data at the sampled subscripts")
    for val_, model_, _same in calls[:3]:
        ms = denote(model_)[tuple(np.asarray(fs).T)]
        with np.errstate(all="ignore"):
            ref_ = float(np.sum(np.asarray(fw, dtype=float).reshape(-1) * np.asarray(fh(xs, ms), dtype=float)))
        if np.isfinite(ref_) and np.isfinite(val_):
            ctx.check(abs(val_ - ref_) <= 1e-9 * max(1.0, abs(ref_)), op, "WRONG-ESTIMATE",
                      f"function estimate {val_!r} vs sum_i w_i f(x_i, m_i) on the same sample {ref_!r} ({len(xs)} samples)")
    fM = float(real_estimate(M, fs, fv, fw, fh, None, False, None))
    best = float(np.nanmin([f0] + epoch_vals))
    ctx.check(abs(fM - best) <= 1e-12 * max(1.0, abs(best)), op, "NOT-BEST-MODEL",
              lambda: f"estimate of the returned model on the fixed sample {fM!r} vs smallest epoch-boundary value {best!r} (sequence {[f0] + epoch_vals})")
    ctx.check(fM <= f0 + 1e-12 * max(1.0, abs(f0)), op, "WORSE-THAN-START", f"returned model estimate {fM!r} worse than the start {f0!r}")
    if len(trace):
        ctx.check(abs(fM - float(np.nanmin(trace))) <= 1e-12 * max(1.0, abs(fM)) or len(trace) != len(want_trace), op, "NOT-MIN-OF-TRACE",
                  f"returned model estimate {fM!r} vs min of the reported trace {float(np.nanmin(trace))!r}")
    ctx.check(all(bool((f >= lb).all()) for f in M.factor_matrices), op, "BOUND", f"factor entry below the lower bound {lb}")
    # (info["n_epoch"] is not judged: the property speaks of the trace - start plus one value per completed epoch - not of how a
    # counter beside it is numbered)


def _running_best(f0, vals):
    out, best = [], f0
    for v in vals:
        if v <= best:
            best = v
        out.append(best)
    return out


def _w_lbfgsb(case, ctx, rng):
    shape = tuple(case["shape"])
    loss, R = case["loss"], case["R"]
    Xd = _loss_data(rng, shape, loss)
    X = ttb.tensor(Xd.copy())
    fh, gh, lb = fg_setup(getattr(Objectives, loss), None, case["par"])
    if case.get("active_bound"):
        # a caller-supplied objective (function, gradient, lower bound 0) whose unconstrained minimiser has negative factor entries:
        # least squares on data with a negative slice.  The bound is active at the solution, so a solve that lost it ends elsewhere
        lb = 0.0
        Xd = np.abs(Xd) + 0.5
        Xd[int(rng.integers(0, shape[0]))] *= -1.0
        X = ttb.tensor(Xd.copy())
        ctx.feat(active_bound=True)
    M0 = ttb.ktensor([rng.uniform(0.2, 1.0, size=(s, R)) for s in shape])
    mask = (rng.random(shape) < 0.8).astype(float) if case["masked"] else None
    kwls = {} if case.get("maxls") is None else {"maxls": case["maxls"]}
    solver = OPT.LBFGSB(maxiter=case["maxiter"], **kwls)
    ctx.feat(loss=loss, masked=case["masked"], maxls=case.get("maxls"))
    m0dig = state_digest(M0)
    via = bool(case.get("via_gcp_opt"))
    mask_form = case.get("mask_form", "ndarray")
    ctx.feat(via_gcp_opt=via, mask_form=(mask_form if mask is not None else None))

    def run(Xarg):
        if via:
            marg = None if mask is None else (ttb.tensor(mask.copy()) if mask_form == "tensor" else mask.copy())
            return ctx.call("gcp_opt", ttb.gcp_opt, Xarg, R, (fh, gh, lb), OPT.LBFGSB(maxiter=case["maxiter"], **kwls), init=M0.copy(), mask=marg, printitn=0)
        return ctx.call("LBFGSB.solve", OPT.LBFGSB(maxiter=case["maxiter"], **kwls).solve, M0, Xarg, fh, gh, lb, mask)
    r = run(X)
    if not r.ok:
        ctx.check(False, "LBFGSB.solve", "RAISE:" + type(r.exc).__name__, f"{type(r.exc).__name__}: {r.exc} | {r.tb}")
        return
    M, info = (r.value[0], r.value[2]) if via else r.value
    f0 = evaluate(M0, X, mask, fh, None)
    f1 = evaluate(M, X, mask, fh, None)
    ctx.check(f1 <= f0 + 1e-10 * max(1.0, abs(f0)), "LBFGSB.solve", "WORSE-THAN-START", f"objective of the result {f1!r} > start {f0!r}")
    # (no differential comparison with SciPy's own run: the property promises "never a higher objective than at the start", not which
    # iterate of which termination rule is returned; line searches that are abandoned at once - maxls=1, where a model left at the last
    # trial point is usually worse than the start - are a fixed family instead)
    if mask is not None and bool((mask == 0).any()):
        # entries declared missing carry no information: other (domain-valid, wildly different) values stored there change nothing
        X2d = Xd.copy()
        fresh = _loss_data(np.random.default_rng(case["cseed"] + 5), shape, loss)
        X2d[mask == 0] = (fresh * (40.0 if loss in ("GAUSSIAN", "HUBER") else 1.0) + (-999.0 if loss in ("GAUSSIAN", "HUBER") else 0.0))[mask == 0]
        if loss not in ("GAUSSIAN", "HUBER"):
            X2d[mask == 0] = np.where(X2d[mask == 0] == Xd[mask == 0], fresh.max() - X2d[mask == 0], X2d[mask == 0])
        r2 = run(ttb.tensor(X2d.copy()))
        if r2.ok:
            M2 = r2.value[0]
            a, b = denote(M), denote(M2)
            ctx.check(a.shape == b.shape and bool(np.max(np.abs(a - b)) <= 1e-12 * max(1.0, float(np.max(np.abs(a))))), "LBFGSB.solve", "MISSING-ENTRIES-MATTER",
                      lambda: f"the fit changed (max diff {np.max(np.abs(a - b))!r}) when only the values stored at masked-out positions were changed")
        else:
            ctx.check(False, "LBFGSB.solve", "RAISE:" + type(r2.exc).__name__, f"second run (other values at masked positions): {r2.exc}")
    # (scipy's final_f after an abandoned line search is the value at the rejected trial point: not an oracle for the returned model)
    ctx.check(all(bool((f >= lb - 1e-12).all()) for f in M.factor_matrices), "LBFGSB.solve", "BOUND", "factor entry below the lower bound")
    ctx.check(state_digest(M0) == m0dig, "LBFGSB.solve", "MUTATED", "initial model changed", who="guess")


def _w_reuse(case, ctx, rng):
    loss = case["loss"]
    fh, gh, lb = fg_setup(getattr(Objectives, loss), None, None)
    probs = []
    shapes = case["shapes"][: case["nsolves"]]
    if case["same_size"]:
        shapes = [shapes[0]] * len(shapes)
    for shp in shapes:
        shp = tuple(shp)
        Xd = _loss_data(rng, shp, loss)
        probs.append((ttb.tensor(Xd.copy()), ttb.ktensor([rng.uniform(0.2, 1.0, size=(s, 2)) for s in shp])))
    ctx.feat(solver=case["solver"], same_size=case["same_size"], loss=loss, to_convergence=case.get("maxiter", 4) > 4)

    def mk():
        if case["solver"] == "LBFGSB":
            return OPT.LBFGSB(maxiter=case.get("maxiter", 4))
        return _mk_solver(case["solver"], rate=case["rate"], max_fails=1, epoch_iters=2, max_iters=case.get("max_iters", 3))

    shared = mk()
    if case.get("failed_first"):
        # an earlier solve on the same object that ended in an exception (a user-supplied loss raising part-way): the object must be as
        # usable afterwards as a fresh one
        calls_ = {"n": 0}

        def fh_bad(x, m):
            calls_["n"] += 1
            if calls_["n"] >= 3:
                raise RuntimeError("loss failed")
            return fh(x, m)
        X0, M00 = probs[0]
        np.random.seed(case["gseed"])
        r0 = ctx.call(case["solver"] + ".solve", shared.solve, M00.copy(), X0, fh_bad, gh, lb)
        ctx.tag("first-solve-raised" if not r0.ok else "first-solve-survived")
        ctx.feat(failed_first=True)
    kept = []

    def _snap(info):
        return {k_: (np.array(v_, copy=True) if isinstance(v_, np.ndarray) else v_) for k_, v_ in info.items()} if isinstance(info, dict) else None

    def _later_changed():
        # what an earlier solve reported (its traces) and returned is its own: a later solve on the same object must not rewrite it
        for j, (info_, snap_, model_, msnap_) in enumerate(kept):
            same_ = all((np.array_equal(info_[k_], v_, equal_nan=True) if isinstance(v_, np.ndarray) else True) for k_, v_ in snap_.items())
            ctx.check(same_, case["solver"] + ".solve", "EARLIER-REPORT-REWRITTEN",
                      lambda: f"the report of solve #{j + 1} (" + ", ".join(k_ for k_, v_ in snap_.items() if isinstance(v_, np.ndarray) and not np.array_equal(info_[k_], v_, equal_nan=True))
                      + ") changed when the same optimizer object ran a later solve", solve_index=min(j, 2))
            ctx.check(bool(np.array_equal(denote(model_), msnap_)), case["solver"] + ".solve", "EARLIER-RESULT-REWRITTEN",
                      f"the model returned by solve #{j + 1} changed when the same optimizer object ran a later solve", solve_index=min(j, 2))

    for i, (X, M0) in enumerate(probs):
        np.random.seed(case["gseed"] + i)
        r1 = ctx.call(case["solver"] + ".solve", shared.solve, M0.copy(), X, fh, gh, lb)
        if r1.ok:
            _later_changed()
            if isinstance(r1.value, tuple) and len(r1.value) >= 2 and isinstance(r1.value[1], dict):
                kept.append((r1.value[1], _snap(r1.value[1]), r1.value[0], denote(r1.value[0]).copy()))
        np.random.seed(case["gseed"] + i)
        r2 = ctx.call(case["solver"] + ".solve", mk().solve, M0.copy(), X, fh, gh, lb)
        if r1.ok != r2.ok:
            bad = r1 if not r1.ok else r2
            if isinstance(bad.exc, ValueError) and "Infinite gradient" in str(bad.exc):
                ctx.tag("diverged")
            ctx.check(False, case["solver"] + ".solve", "REUSE-DIFFERS", f"solve #{i + 1}: reused object {'raised ' + repr(r1.exc) if not r1.ok else 'returned'}, "
                      f"fresh object {'raised ' + repr(r2.exc) if not r2.ok else 'returned'}", solve_index=min(i, 2))
            return
        if not r1.ok:
            return
        i1, i2 = r1.value[1], r2.value[1]
        if isinstance(i1, dict) and isinstance(i2, dict):
            # what the solve reports about its course (everything but clock readings) is the same as well
            keys = [k_ for k_ in ("f_est_trace", "step_trace", "n_epoch", "final_f", "nit", "funcalls", "warnflag") if k_ in i1 or k_ in i2]
            diff = [k_ for k_ in keys if not (k_ in i1 and k_ in i2 and np.array_equal(np.asarray(i1[k_]), np.asarray(i2[k_]), equal_nan=True))]
            ctx.check(not diff, case["solver"] + ".solve", "REUSE-DIFFERS-REPORT",
                      lambda: f"solve #{i + 1} on a reused optimizer object reports another course than the same solve on a fresh object: "
                      + "; ".join(f"{k_}: {np.asarray(i1.get(k_)).tolist()} vs {np.asarray(i2.get(k_)).tolist()}" for k_ in diff), solve_index=min(i, 2))
            if "f_est_trace" in i1 and len(i1["f_est_trace"]) >= 2 and bool(np.any(np.diff(np.asarray(i1["f_est_trace"], dtype=float)) > 0)):
                ctx.tag("solve-with-a-failed-epoch")
        a, b = denote(r1.value[0]), denote(r2.value[0])
        ctx.check(a.shape == b.shape and bool(np.array_equal(a, b)), case["solver"] + ".solve", "REUSE-DIFFERS",
                  lambda: f"solve #{i + 1} on a reused optimizer object differs from the same solve on a fresh object: max diff {np.max(np.abs(a - b))!r}",
                  solve_index=min(i, 2))
    _later_changed()
