"""C07 -- permute, reshape and squeeze are exact index maps."""
import itertools

import numpy as np

from .. import load
from .. import gen, refops
from ..denote import denote, same, close

np_, ttb = load()
ID = "C07"
RULE = ("case = (op, shape, ramp values in shuffled positions, sparsity pattern, stored order, mode order | target shape | "
        "reshaped-mode subset); all N! orders for N<=4 (quick) / N<=5 (thorough) on shapes with pairwise distinct sizes, "
        "all ordered factorisations of the cell count as reshape targets; non-trivial = >= 2 cells and (for permute) a "
        "non-identity order; distinct = hash of the serialised case")
ANCHORS = [
    "tensor:tensor.permute", "tensor:tensor.reshape", "tensor:tensor.squeeze",
    "sptensor:sptensor.permute", "sptensor:sptensor.reshape", "sptensor:sptensor.squeeze",
    "ktensor:ktensor.permute", "ttensor:ttensor.permute",
]
EXHAUSTIVE = {
    "quick": {"mode orders N<=4 (distinct sizes)": "complete (1+2+6+24)", "ordered factorisations (factors>=2) of cell counts <= 48": "complete",
              "squeeze 0/1 singleton patterns N<=4": "complete"},
    "thorough": {"mode orders N<=5 (distinct sizes)": "complete (..+120)", "partial reshape: every mode subset N<=4": "complete",
                 "squeeze 0/1 singleton patterns N<=5": "complete"},
}
NPINT_ARGS = True     # a quarter of the cases pass their integer arguments as NumPy integers (core.Ctx.begin)
STRIDED_ARGS = True   # a quarter of the cases pass every array argument as a strided, non-contiguous view (core.Ctx.begin)
SEQ_ARGS = True       # a quarter of the cases pass short integer arrays (mode lists, permutations) as plain lists / tuples (core.Ctx.begin)
MUTSAN = "full"        # operand digests + result-vs-operand aliasing on every depth-0 call (pvm/mutsan.py)
WATCHDOG = {"quick": 600, "thorough": 3000}


def nontrivial(case):
    if int(np.prod(case["shape"])) < 2:
        return False
    if case["w"] == "permute":
        return list(case["order"]) != sorted(case["order"])
    return True


def factorizations(n, maxlen=4):
    """Ordered factorisations of n into 1..maxlen factors >= 2 (n=1 -> [()])."""
    out = []

    def rec(rem, acc):
        if rem == 1:
            if acc:
                out.append(tuple(acc))
            return
        if len(acc) == maxlen:
            return
        for f in range(2, rem + 1):
            if rem % f == 0:
                rec(rem // f, acc + [f])

    rec(n, [])
    return out or [(1,)]


def _tensor_case(rng, shp, pat):
    A = gen.sparsify(rng, gen.ramp(shp, rng), pat)
    nnz = int(np.count_nonzero(A))
    return A, gen.stored_order(rng, nnz, "shuffled")


def _gen_cases(tier, seed):
    rng = gen.rng_for(seed, ID, tier)
    maxN = 4 if tier == "quick" else 5
    base = {1: (3,), 2: (2, 3), 3: (2, 3, 4), 4: (2, 3, 4, 5), 5: (2, 3, 4, 5, 3)}
    shapes = []
    for N in range(1, maxN + 1):
        shapes.append(base[N])
        shapes.append(tuple(reversed(base[N])))
        shapes.append(gen.distinct_shape(rng, N, 2, 6) if N < 5 else (3, 2, 4, 2, 5))
        shapes.append(tuple([1] + list(base[N][1:])))           # singleton mode
        shapes.append(tuple([2] * N))                            # repeated sizes
        shapes.append(gen.rand_shape(rng, N, 1, 3))
    pats = ["all", "some", "one", "none"]
    for shp in shapes:
        N = len(shp)
        for order in itertools.permutations(range(N)):
            pat = pats[int(rng.integers(0, 4))] if list(order) != list(range(N)) else "some"
            A, so = _tensor_case(rng, shp, pat)
            R = int(rng.integers(1, 4))
            w, fm = gen.rand_ktensor_parts(rng, shp, R)
            ranks = [int(rng.integers(1, 3)) for _ in shp]
            core, tf = gen.rand_ttensor_parts(rng, shp, ranks)
            yield {"w": "permute", "shape": list(shp), "A": A.tolist(), "order": list(order), "so": so, "pattern": pat,
                   "weights": w.tolist(), "factors": [f.tolist() for f in fm], "core": core.tolist(),
                   "tfactors": [f.tolist() for f in tf]}
    # reshape: every ordered factorisation of the cell count
    rshapes = [(2, 3), (3, 2), (2, 3, 4), (4, 3, 2), (2, 2, 2, 3), (6,), (1, 6), (3, 1, 4), (2, 6), (12, 2), (2, 2, 2), (1, 1, 1), (1,), (5, 1)]
    if tier == "thorough":
        rshapes += [(2, 3, 4, 2), (3, 4, 5), (2, 2, 3, 3), (6, 6), (4, 9), (2, 3, 2, 3, 2)] + [gen.rand_shape(rng, 3, 1, 5) for _ in range(25)]
    for shp in rshapes:
        cells = int(np.prod(shp))
        targets = factorizations(cells, 4)
        extra = []
        for t in targets[:6]:
            k = int(rng.integers(0, len(t) + 1))
            extra.append(tuple(list(t[:k]) + [1] + list(t[k:])))
        for tgt in targets + extra + [tuple(shp)]:
            for pat in (["all", "some"] if tier == "quick" else pats):
                A, so = _tensor_case(rng, shp, pat)
                yield {"w": "reshape", "shape": list(shp), "A": A.tolist(), "new_shape": list(tgt), "so": so, "pattern": pat}
    # sparse partial reshape: every subset of modes
    pshapes = [(2, 3, 4), (3, 2, 2), (2, 3, 2, 2), (4, 1, 3)] + ([gen.rand_shape(rng, 4, 1, 4) for _ in range(12)] + [(2, 3, 4, 5)] if tier == "thorough" else [])
    for shp in pshapes:
        N = len(shp)
        for sub in gen.nonempty_subsets(N):
            variants = [list(sub)]
            if len(sub) > 1:
                variants.append([int(x) for x in rng.permutation(sub)])
            for old in variants:
                cells = int(np.prod([shp[m] for m in old]))
                tg = factorizations(cells, 3)
                for tgt in gen.take(rng, tg, 3 if tier == "quick" else 8):
                    pat = pats[int(rng.integers(0, 3))]
                    A, so = _tensor_case(rng, shp, pat)
                    yield {"w": "partial_reshape", "shape": list(shp), "A": A.tolist(), "old_modes": old,
                           "sorted_modes": old == sorted(old), "int_form": bool(rng.integers(0, 2)), "new_shape": list(tgt), "so": so, "pattern": pat}
    # partial reshape of tensors of order 9-11 (mode numbers beyond 7): the modes left alone keep their order
    for shp, olds in (((2, 1, 1, 2, 1, 1, 2, 1, 3), ([0, 1, 2, 3, 4], [3, 0], [8, 0])), ((1, 2, 1, 1, 2, 1, 2, 1, 3, 1), ([0, 1, 2, 3, 4, 5], [4, 1, 0], [9, 8, 6])),
                      ((2, 1, 1, 1, 1, 1, 1, 2, 1, 3, 2), ([0, 1, 2, 3, 4, 5, 6], [7, 0]))):
        for old in olds:
            cells = int(np.prod([shp[m] for m in old]))
            for tgt in gen.take(rng, factorizations(cells, 3), 2):
                pat = pats[int(rng.integers(0, 3))]
                A, so = _tensor_case(rng, shp, pat)
                yield {"w": "partial_reshape", "shape": list(shp), "A": A.tolist(), "old_modes": list(old), "sorted_modes": list(old) == sorted(old),
                       "int_form": False, "new_shape": list(tgt), "so": so, "pattern": pat, "high_order": True}
    # squeeze: every 0/1 pattern of singleton modes
    for N in range(1, maxN + 1):
        for mask in itertools.product((0, 1), repeat=N):
            shp = tuple(1 if m else int(rng.integers(2, 4)) for m in mask)
            for pat in pats:
                A, so = _tensor_case(rng, shp, pat)
                yield {"w": "squeeze", "shape": list(shp), "A": A.tolist(), "so": so, "pattern": pat,
                       "all_singleton": all(mask), "any_singleton": any(mask)}


def _loops_transpose(A, order):
    out = np.zeros(tuple(A.shape[o] for o in order), dtype=A.dtype)
    for idx in itertools.product(*[range(s) for s in A.shape]):
        out[tuple(idx[o] for o in order)] = A[idx]
    return out


def _gen_typed(tier, seed):
    rng = gen.rng_for(seed + 1, ID, tier)
    # subscripts held in narrow integer types, reshaped into a mode longer than that type can index
    narrow = [("uint8", [20, 20], [400]), ("uint8", [16, 16], [256]), ("uint8", [2, 130], [260]), ("int8", [12, 12], [144]), ("int8", [5, 6, 7], [210]),
              ("int16", [200, 200], [40000]), ("uint8", [20, 20], [2, 200]), ("uint8", [3, 100], [300, 1]), ("int32", [6, 7], [42]), ("uint16", [300, 300], [90000])]
    for dt, shp, tgt in narrow:
        for _ in range(1 if tier == "quick" else 5):
            yield {"w": "reshape_narrow", "shape": shp, "new_shape": tgt, "dtype": dt, "cseed": int(rng.integers(0, 2 ** 31))}
    yield {"w": "reshape_narrow", "shape": [20, 3, 20], "new_shape": [400], "old_modes": [0, 2], "dtype": "uint8", "cseed": int(rng.integers(0, 2 ** 31))}
    yield {"w": "reshape_narrow", "shape": [20, 3, 20], "new_shape": [400], "old_modes": [2, 0], "dtype": "uint8", "cseed": int(rng.integers(0, 2 ** 31))}
    # integer values that no double represents: an index map must hand them over unchanged
    for shp in ([1], [1, 1], [1, 1, 1], [1, 1, 1, 1], [1, 2, 1], [2, 1], [1, 3, 1, 2]):
        for vt in ("int64", "uint64"):
            yield {"w": "bigint", "shape": shp, "vt": vt, "cseed": int(rng.integers(0, 2 ** 31))}


def gen_cases(tier, seed):
    yield from _gen_hist(tier, seed)
    for case in _gen_typed(tier, seed):
        case["hist"] = "ctor"
        case.setdefault("A", [])
        case.setdefault("so", None)
        yield case


def _gen_hist(tier, seed):
    # dense-holder history: every third case reaches its dense operand by growth (subtensor assignment past the extent) instead of the constructor
    for i, case in enumerate(_gen_cases(tier, seed)):
        case["hist"] = "grown" if (i + int(seed)) % 3 == 1 else "ctor"
        yield case


def _typed_case(case, ctx):
    rng = np.random.default_rng(case["cseed"])
    shape = tuple(case["shape"])
    w = case["w"]
    if w == "reshape_narrow":
        dt = np.dtype(case["dtype"])
        n = int(np.prod(shape))
        k = min(n, 25)
        lin = rng.choice(n, size=k, replace=False)
        if n - 1 not in lin:
            lin[0] = n - 1                               # the far corner is stored
        subs = np.stack(np.unravel_index(lin, shape), axis=1)
        vals = np.round(rng.uniform(1, 9, size=(k, 1)), 3)
        A = np.zeros(shape)
        A[tuple(subs.T)] = vals[:, 0]
        S = ttb.sptensor(subs.astype(dt), vals.copy(), shape)
        new_shape = tuple(case["new_shape"])
        old = case.get("old_modes")
        ctx.feat(subs_dtype=case["dtype"], partial=old is not None)
        if old is None:
            want = refops.reshape_ff(A, new_shape)
            P = ctx.must("sptensor.reshape", S.reshape, new_shape)
        else:
            want = refops.partial_reshape_ff(A, new_shape, old)
            P = ctx.must("sptensor.reshape", S.reshape, new_shape, np.array(old))
        ctx.structural(P, "sptensor.reshape")
        ctx.check(tuple(P.shape) == want.shape and same(denote(P), want), "sptensor.reshape", "WRONG",
                  f"reshape of a {shape} tensor with {case['dtype']} subscripts to {new_shape}: entries moved or lost")
        if old is None:
            B = ctx.must("sptensor.reshape", P.reshape, shape)
            ctx.check(same(denote(B), A), "sptensor.reshape", "WRONG", "reshape there and back is not the identity", roundtrip=True)
        Pp = ctx.must("sptensor.permute", S.permute, np.arange(len(shape))[::-1].copy())
        ctx.check(same(denote(Pp), np.transpose(A)), "sptensor.permute", "WRONG", "permute with narrow subscripts")
        return
    # bigint
    vt = np.dtype(case["vt"])
    n = int(np.prod(shape))
    base = 2 ** 53 + 1 if vt == np.int64 else 2 ** 63 + 5
    vals_py = [base + 2 * int(x) for x in rng.integers(0, 1000, size=n)]
    A = np.array(vals_py, dtype=vt).reshape(shape)
    T = ttb.tensor(A.copy())
    subs = np.argwhere(A != 0)
    S = ttb.sptensor(subs, A[tuple(subs.T)].reshape(-1, 1).copy(), shape)
    allone = all(s_ == 1 for s_ in shape)
    ctx.feat(vt=case["vt"], all_singleton=allone)
    want = np.squeeze(A)
    for name, H in (("tensor", T), ("sptensor", S)):
        op = f"{name}.squeeze"
        P = ctx.must(op, H.squeeze)
        if allone:
            ctx.check(not isinstance(P, (ttb.tensor, ttb.sptensor)) and int(P) == vals_py[0] and float(P) == float(vals_py[0]) and
                      (not isinstance(P, float) or int(P) == vals_py[0]), op, "WRONG", f"all-singleton squeeze of the integer {vals_py[0]} gives {P!r}")
        elif name == "tensor":
            ctx.check(tuple(P.shape) == want.shape and np.asarray(P.data).astype(object).tolist() == want.astype(object).tolist(), op, "WRONG", "integer values changed by squeeze")
        else:
            got = {tuple(int(x) for x in sub): int(v) for sub, v in zip(np.asarray(P.subs).tolist(), np.asarray(P.vals).reshape(-1).tolist())}
            wantd = {tuple(int(x) for x in idx): int(want[idx]) for idx in np.ndindex(*want.shape)}
            ctx.check(tuple(P.shape) == want.shape and got == wantd, op, "WRONG", "integer values changed by squeeze")
    for name, H in (("tensor", T), ("sptensor", S)):
        op = f"{name}.permute"
        P = ctx.must(op, H.permute, np.arange(len(shape))[::-1].copy())
        vals_after = sorted(int(v) for v in (np.asarray(P.data).reshape(-1).tolist() if name == "tensor" else np.asarray(P.vals).reshape(-1).tolist()))
        ctx.check(vals_after == sorted(vals_py), op, "WRONG", "integer values changed by permute")
        P2 = ctx.must(f"{name}.reshape", H.reshape, (n,))
        vals_after = sorted(int(v) for v in (np.asarray(P2.data).reshape(-1).tolist() if name == "tensor" else np.asarray(P2.vals).reshape(-1).tolist()))
        ctx.check(vals_after == sorted(vals_py), f"{name}.reshape", "WRONG", "integer values changed by reshape")


def run_case(case, ctx):
    if case["w"] in ("reshape_narrow", "bigint"):
        return _typed_case(case, ctx)
    shape = tuple(case["shape"])
    A = np.array(case["A"], dtype=float).reshape(shape)
    nnz = int(np.count_nonzero(A))
    ctx.feat(N=len(shape), nnzc=("0" if nnz == 0 else "1" if nnz == 1 else "2+"), has_singleton=bool(1 in shape))
    T = gen.mk_tensor(ttb, A, case.get("hist", "ctor"))
    ctx.feat(hist=case.get("hist", "ctor"))
    S = gen.mk_sptensor(ttb, A, case["so"], hist=("grown-subs" if case.get("hist") == "grown" else None))
    w = case["w"]
    if w == "permute":
        order = [int(o) for o in case["order"]]
        inv = [int(x) for x in np.argsort(order)]
        ident = order == sorted(order)
        ctx.feat(identity=ident, involution=(order == inv))
        want = np.transpose(A, order)
        if A.size <= 24:
            ctx.check(same(want, _loops_transpose(A, order)), "reference", "REFERENCE", "np.transpose disagrees with the per-element formula")
        for name, H in (("tensor", T), ("sptensor", S)):
            op = f"{name}.permute"
            P = ctx.must(op, H.permute, np.array(order))
            ctx.structural(P, op)
            ctx.check(same(denote(P), want), op, "WRONG", lambda: f"{op}({order}) gives {denote(P).tolist()} want {want.tolist()}")
            ctx.check(tuple(P.shape) == want.shape, op, "WRONG-META", f"shape {P.shape} want {want.shape}")
            B = ctx.must(op, P.permute, np.array(inv))
            ctx.check(same(denote(B), A), op, "WRONG", "permute by order then by its inverse is not the identity", roundtrip=True)
        K = gen.mk_ktensor(ttb, case["weights"], case["factors"])
        KP = ctx.must("ktensor.permute", K.permute, np.array(order))
        ok = (len(KP.factor_matrices) == len(order) and same(KP.weights, K.weights)
              and all(same(KP.factor_matrices[k], K.factor_matrices[order[k]]) for k in range(len(order))))
        ctx.check(ok and close(denote(KP), np.transpose(denote(K), order), tol=1e-12), "ktensor.permute", "WRONG",
                  "Kruskal permute is not the reordering of factor matrices")
        TT = gen.mk_ttensor(ttb, case["core"], case["tfactors"])
        TP = ctx.must("ttensor.permute", TT.permute, np.array(order))
        ok = all(same(TP.factor_matrices[k], TT.factor_matrices[order[k]]) for k in range(len(order))) and \
            same(denote(TP.core), np.transpose(denote(TT.core), order))
        ctx.check(ok and close(denote(TP), np.transpose(denote(TT), order), tol=1e-12), "ttensor.permute", "WRONG",
                  "Tucker permute is not the reordering of factors and core modes")
    elif w == "reshape":
        new_shape = tuple(case["new_shape"])
        want = refops.reshape_ff(A, new_shape)
        if A.size <= 24:
            ctx.check(same(want, refops.loops_reshape_ff(A, new_shape)), "reference", "REFERENCE", "reshape reference disagrees with loops")
        import zlib

        # how the new shape is written: tuple, list, integer array, or a one-shot iterable (iterator, generator, map): all documented
        form = ["tuple", "list", "array", "iterator", "generator", "map"][zlib.crc32(repr((shape, new_shape)).encode()) % 6]
        ctx.feat(shape_form=form)

        def shape_arg():
            return {"tuple": lambda: tuple(new_shape), "list": lambda: list(new_shape), "array": lambda: np.array(new_shape, dtype=int),
                    "iterator": lambda: iter(list(new_shape)), "generator": lambda: (int(x_) for x_ in new_shape),
                    "map": lambda: map(int, [str(x_) for x_ in new_shape])}[form]()
        for name, H in (("tensor", T), ("sptensor", S)):
            op = f"{name}.reshape"
            P = ctx.must(op, H.reshape, shape_arg())
            ctx.structural(P, op)
            ctx.check(tuple(P.shape) == new_shape and same(denote(P), want), op, "WRONG",
                      lambda: f"{op}({new_shape}) gives {denote(P).tolist()} want {want.tolist()}")
            B = ctx.must(op, P.reshape, shape)
            ctx.check(same(denote(B), A), op, "WRONG", "reshape there and back is not the identity", roundtrip=True)
    elif w == "partial_reshape":
        new_shape = tuple(case["new_shape"])
        old = case["old_modes"]
        ctx.feat(sorted_modes=case["sorted_modes"], nold=len(old))
        want = refops.partial_reshape_ff(A, new_shape, old)
        arg = int(old[0]) if (len(old) == 1 and case.get("int_form")) else np.array(old)
        P = ctx.must("sptensor.reshape", S.reshape, new_shape, arg)
        ctx.structural(P, "sptensor.reshape")
        ctx.check(tuple(P.shape) == want.shape and same(denote(P), want), "sptensor.reshape", "WRONG",
                  lambda: f"reshape({new_shape}, old_modes={old}) gives shape {P.shape} {denote(P).tolist()} want {want.shape} {want.tolist()}")
    elif w == "squeeze":
        ctx.feat(all_singleton=case["all_singleton"], any_singleton=case["any_singleton"])
        want = np.squeeze(A)
        for name, H in (("tensor", T), ("sptensor", S)):
            op = f"{name}.squeeze"
            P = ctx.must(op, H.squeeze)
            if case["all_singleton"]:
                ok = np.isscalar(P) or (isinstance(P, np.ndarray) and P.ndim == 0) or isinstance(P, (float, int, np.generic))
                ctx.tag("squeeze->scalar")
                ctx.check(bool(ok) and float(P) == float(A.reshape(-1)[0]), op, "WRONG", f"all-singleton squeeze gives {P!r} want {A.reshape(-1)[0]}")
            else:
                ctx.tag("squeeze->tensor")
                ctx.structural(P, op)
                ctx.check(tuple(P.shape) == want.shape and same(denote(P), want), op, "WRONG",
                          lambda: f"squeeze of shape {shape} gives {getattr(P, 'shape', None)}")
