"""C14 -- leading mode-n vectors span the dominant subspace in every representation."""
import itertools

import numpy as np

from .. import load
from .. import gen, refops
from ..denote import denote

np_, ttb = load()
ID = "C14"
RULE = ("case = (data family exact-Kruskal (4 holders) / noisy-dense (dense+sparse holders), shape N=2..4 sizes 2..7, mode n, count r, flipsign, "
        "case seed); every mode n and every 1 <= r <= I_n (limited to the numerically separated part of the spectrum: consecutive leading "
        "eigenvalues differ by >= 2 percent); non-trivial = I_n >= 2; distinct = hash of case")
ANCHORS = ["tensor:tensor.nvecs", "sptensor:sptensor.nvecs", "ktensor:ktensor.nvecs", "ttensor:ttensor.nvecs"]
EXHAUSTIVE = {"quick": {"(n, r) pairs for every generated shape": "complete"}, "thorough": {"(n, r) pairs for every generated shape": "complete"}}
NPINT_ARGS = True     # a quarter of the cases pass their integer arguments as NumPy integers (core.Ctx.begin)
STRIDED_ARGS = True   # a quarter of the cases pass every array argument as a strided, non-contiguous view (core.Ctx.begin)
SEQ_ARGS = True       # a quarter of the cases pass short integer arrays (mode lists, permutations) as plain lists / tuples (core.Ctx.begin)
WATCHDOG = {"quick": 600, "thorough": 3000}


def nontrivial(case):
    return case["shape"][case["n"]] >= 2


def gen_cases(tier, seed):
    rng = gen.rng_for(seed, ID, tier)
    cs = itertools.count(1)
    nshapes = 10 if tier == "quick" else 80
    for fam in ("exact", "noisy", "int32", "uint8", "float32", "tucker-sparse", "empty-tail", "shared-factors", "tucker-orth", "scattered", "sym-indefinite"):
        for _ in range(nshapes if fam in ("exact", "noisy") else max(2, nshapes // 3)):
            N = int(rng.integers(2, 5))
            shape = [int(s) for s in rng.integers(2, 8 if N < 4 else 5, size=N)]
            if fam in ("tucker-sparse", "tucker-orth"):
                shape = [int(s) for s in rng.integers(4, 8 if N < 4 else 5, size=N)]
            if fam == "sym-indefinite":
                # a square, exactly symmetric unfolding with eigenvalues of both signs (the Gram spectrum is their squares)
                s_ = int(rng.integers(3, 7))
                shape = [s_, s_] if rng.random() < 0.6 else [s_, s_, 1]
                N = len(shape)
            if fam == "scattered":
                N = 3
                shape = [int(rng.integers(4, 7)), int(rng.integers(3, 5)), int(rng.integers(3, 5))]
            if fam in ("noisy", "int32") and rng.random() < 0.3:
                # singleton modes (the unfolding of such a mode is a single row; other modes lose nothing)
                shape[int(rng.integers(0, N))] = 1
            if fam == "shared-factors":
                N = max(N, 3) if N < 4 else N
                shape = [int(s) for s in rng.integers(3, 6, size=N)]
                shape[1] = shape[0]                         # two (or three) modes of equal size share one factor-matrix object
                if rng.random() < 0.4:
                    shape[2] = shape[0]
            dseed = int(rng.integers(0, 2 ** 31))
            for n in range(N):
                for r in range(1, shape[n] + 1):
                    for fs in (True, False):
                        if not fs and rng.random() < 0.5:
                            continue
                        yield {"w": "nvecs", "fam": fam, "shape": shape, "n": n, "r": r, "flipsign": fs, "dseed": dseed, "scale": [1.0, 1.0, 1e-8, 1e8, 1e-100][dseed % 5],
                               "cseed": int(seed) * 86028121 + next(cs)}


def _data(case):
    rng = np.random.default_rng(case["dseed"])
    shape = tuple(case["shape"])
    R = 3
    w = np.array([3.0, 1.7, 0.9]) * rng.choice([-1.0, 1.0], size=R)
    fm = [np.linalg.qr(rng.standard_normal((max(s, R), R)))[0][:s, :] + 0.15 * rng.standard_normal((s, R)) for s in shape]
    K = ttb.ktensor([f.copy() for f in fm], w.copy())
    A = denote(K)
    H = {}
    if case["fam"] == "shared-factors":
        # one ndarray object serves as the factor matrix of several modes (no-copy construction, or assigning one matrix to several slots)
        Fs = np.asfortranarray(fm[0])
        shared = [Fs if shape[k_] == shape[0] and k_ <= 2 else np.asfortranarray(fm[k_]) for k_ in range(len(shape))]
        Ksh = ttb.ktensor(list(shared), w.copy(), copy=False)
        core = np.zeros((R,) * len(shape))
        for r_ in range(R):
            core[(r_,) * len(shape)] = w[r_]
        Tsh = ttb.ttensor(ttb.tensor(core), list(shared), copy=False)
        A = denote(ttb.ktensor([np.array(f) for f in shared], w.copy()))
        H["ktensor"] = Ksh
        H["ttensor"] = Tsh
        H["tensor"] = ttb.tensor(A.copy())
        return A, H
    if case["fam"] == "tucker-orth":
        # a Tucker tensor as hosvd / tucker_als / QR produce it: tall factors with orthonormal columns, a core with a well spread spectrum
        csz = tuple(int(rng.integers(2, min(s_ - 1, 3) + 1)) for s_ in shape)
        U = [np.linalg.qr(rng.standard_normal((s_, c_)))[0] for s_, c_ in zip(shape, csz)]
        cd = rng.standard_normal(csz)
        for k_, c_ in enumerate(csz):
            cd = cd * (0.45 ** np.arange(c_)).reshape([-1 if j_ == k_ else 1 for j_ in range(len(csz))])
        A = refops.ttm(cd, U, list(range(len(shape))))
        H["ttensor"] = ttb.ttensor(ttb.tensor(cd.copy()), [u.copy() for u in U])
        H["tensor"] = ttb.tensor(A.copy())
        return A, H
    if case["fam"] == "sym-indefinite":
        s_ = shape[0]
        Q = np.linalg.qr(rng.standard_normal((s_, s_)))[0]
        lam = np.array([-5.0, 3.0, 1.8, -1.0, 0.5, -0.2][:s_])
        Msym = (Q * lam) @ Q.T
        Msym = (Msym + Msym.T) / 2.0                       # exactly symmetric
        A = Msym.reshape(shape)
        H["tensor"] = ttb.tensor(A.copy())
        H["sptensor"] = gen.mk_sptensor(ttb, A, gen.stored_order(rng, int(np.count_nonzero(A)), "shuffled"))
        return A, H
    if case["fam"] == "scattered":
        # very sparse data: no two nonzeros share a mode-0 fibre position (the mode-0 Gram matrix is diagonal), several nonzeros per slice,
        # and the slices rank differently by sum of magnitudes than by energy
        groups = [[2.0, 2.0], [3.0], [1.5, 1.5, 1.5], [2.5]] + [[0.7]] * (shape[0] - 4)
        cols = rng.permutation(shape[1] * shape[2])
        perm = rng.permutation(shape[0])
        A = np.zeros(shape)
        c_ = 0
        for i_, vals_ in enumerate(groups[: shape[0]]):
            if i_ >= 4 and rng.random() < 0.5:
                continue
            for v_ in vals_:
                if c_ >= len(cols):
                    break
                j_, k_ = divmod(int(cols[c_]), shape[2])
                A[int(perm[i_]), j_, k_] = v_ * (1.0 + 0.01 * i_) * float(rng.choice([-1.0, 1.0]))
                c_ += 1
        H["tensor"] = ttb.tensor(A.copy())
        H["sptensor"] = gen.mk_sptensor(ttb, A, gen.stored_order(rng, int(np.count_nonzero(A)), "shuffled"))
        return A, H
    if case["fam"] == "tucker-sparse":
        # Tucker tensors with a (really) sparse core and (really) sparse factor matrices next to the same data held with dense parts
        from scipy import sparse as sp

        for _try in range(20):
            csz = tuple(int(rng.integers(2, min(s, 4) + 1)) for s in shape)
            cd = rng.standard_normal(csz) * (rng.random(csz) < 0.3)
            U = [rng.standard_normal((s, c)) * (rng.random((s, c)) < 0.3) for s, c in zip(shape, csz)]
            A = cd
            for k_, Uk in enumerate(U):
                A = np.moveaxis(np.tensordot(Uk, A, axes=(1, k_)), 0, k_)
            if np.linalg.norm(A) > 0:
                break
        H["ttensor"] = ttb.ttensor(ttb.tensor(cd.copy()), [u.copy() for u in U])
        H["ttensor(sparse core, sparse factors)"] = ttb.ttensor(gen.mk_sptensor(ttb, cd), [sp.coo_matrix(u) for u in U])
        H["ttensor(sparse core)"] = ttb.ttensor(gen.mk_sptensor(ttb, cd), [u.copy() for u in U])
        H["ttensor(sparse factors)"] = ttb.ttensor(ttb.tensor(cd.copy()), [sp.coo_matrix(u) for u in U])
        H["tensor"] = ttb.tensor(A.copy())
        return A, H
    if case["fam"] == "exact":
        H["ktensor"] = K
        core = np.zeros((R,) * len(shape))
        for r_ in range(R):
            core[(r_,) * len(shape)] = w[r_]
        H["ttensor"] = ttb.ttensor(ttb.tensor(core), [f.copy() for f in fm])
    elif case["fam"] in ("noisy", "empty-tail"):
        A = A + 0.3 * rng.standard_normal(shape)
        if case["fam"] == "empty-tail":
            # the last slice(s) of one or two modes hold no nonzero at all: the extent of a mode is its declared size, not the largest
            # occupied index
            for m_ in rng.choice(len(shape), size=min(2, len(shape)), replace=False):
                k_ = int(rng.integers(1, max(2, shape[m_] // 2)))
                idx = [slice(None)] * len(shape)
                idx[int(m_)] = slice(shape[m_] - k_, None)
                A[tuple(idx)] = 0.0
    else:
        # the same values stored in a narrower element type: the vectors must not depend on the storage type
        A = A + 0.3 * rng.standard_normal(shape)
        if case["fam"] == "int32":
            A = np.round(A * 2.0e4).astype(np.int32)
        elif case["fam"] == "uint8":
            A = np.clip(np.round(np.abs(A) * 60.0), 0, 255).astype(np.uint8)
        else:
            A = (A * np.array([1.0e3 if i == 0 else 1.0 for i in range(shape[0])]).reshape([-1] + [1] * (len(shape) - 1))).astype(np.float32)
        H_ = {"tensor": ttb.tensor(A.copy())}
        if case["fam"] in ("int32", "uint8"):
            # the sparse holder of the same integer-typed values
            H_["sptensor"] = ttb.sptensor(np.argwhere(A != 0), A[A != 0].reshape(-1, 1).copy(), shape) if np.any(A != 0) else ttb.sptensor(shape=shape)
        return A.astype(np.float64), H_
    sc_ = float(case.get("scale", 1.0))
    if sc_ != 1.0:
        # overall magnitude of the data: the vectors do not depend on it (Gram entries of 1e-16 / 1e16 / 1e-200 relative to unit data; 1e-150, where the Gram matrix itself sinks into the denormal range, is not asked for)
        A = A * sc_
        K = ttb.ktensor([f.copy() for f in fm], w.copy() * sc_)
        if "ktensor" in H:
            H["ktensor"] = K
            H["ttensor"] = ttb.ttensor(ttb.tensor(denote(H["ttensor"].core) * sc_), [f.copy() for f in fm])
    H["tensor"] = ttb.tensor(A.copy())
    # a sparse holder of the same array: zero a few entries in both
    mask = rng.random(shape) < (0.0 if case["fam"] == "exact" else 0.3)
    if case["fam"] in ("noisy", "empty-tail"):
        A = np.where(mask, 0.0, A)
        H["tensor"] = ttb.tensor(A.copy())
    nnz = int(np.count_nonzero(A))
    H["sptensor"] = gen.mk_sptensor(ttb, A, gen.stored_order(rng, nnz, "shuffled"))
    return A, H


def run_case(case, ctx):
    A, H = _data(case)
    n, r, fs = case["n"], case["r"], case["flipsign"]
    In = A.shape[n]
    G = refops.gram_mode(A, n)
    ev, evec = np.linalg.eigh(G)
    ev, evec = ev[::-1], evec[:, ::-1]
    top = ev[0]
    # domain of the spectral clauses: leading r eigenvalues well separated from each other and from the (r+1)-th
    lead = ev[: min(r + 1, In)]
    gaps = lead[:-1] - lead[1:] if len(lead) > 1 else np.array([top])
    separated = not (top <= 0 or np.any(lead[:r] < 1e-8 * top) or np.any(gaps < 0.02 * top))
    path = "iterative" if r < In - 1 else "dense"
    ctx.feat(fam=case["fam"], path=path, flipsign=fs, r_eq_size=(r == In), separated=separated, scale=str(case.get("scale", 1.0)))
    ref_sub = evec[:, :r]
    results = {}
    for name, X in H.items():
        op = f"{name.split('(')[0]}.nvecs"
        rr = ctx.call(op, X.nvecs, n, r, **({} if fs else {"flipsign": False}))
        if not rr.ok:
            ctx.check(False, op, "RAISE:" + type(rr.exc).__name__, f"{type(rr.exc).__name__}: {rr.exc} | {rr.tb}", holder=name)
            continue
        V = rr.value
        ctx.tag(f"{name}:{path}")
        ok = isinstance(V, np.ndarray) and V.shape == (In, r)
        ctx.check(ok, op, "WRONG-SHAPE", f"returned {type(V).__name__} of shape {getattr(V, 'shape', None)}, want ({In}, {r})", holder=name)
        if not ok:
            continue
        ctx.check(V.dtype.kind == "f", op, "NOT-REAL", f"dtype {V.dtype}", holder=name)
        Vr = np.real(V).astype(float)
        if np.iscomplexobj(V) and np.max(np.abs(np.imag(V))) > 1e-12:
            continue
        ctx.check(np.linalg.norm(Vr.T @ Vr - np.eye(r)) <= 1e-8, op, "NOT-ORTHONORMAL", f"||V'V - I|| = {np.linalg.norm(Vr.T @ Vr - np.eye(r)):.3e}", holder=name)
        if not separated:
            # outside the spectral domain of the property (leading eigenvalues not well separated).  The direct (dense-solver) path is still
            # judged on what holds for any symmetric matrix: every column is an eigenvector and the Rayleigh quotients are the r largest
            # eigenvalues in decreasing order (subspace comparisons need a gap and are skipped)
            ctx.tag("outside-spectral-domain")
            if path == "dense" and top > 0:
                rq = np.array([Vr[:, i] @ G @ Vr[:, i] for i in range(r)])
                res = max(np.linalg.norm(G @ Vr[:, i] - rq[i] * Vr[:, i]) for i in range(r))
                ctx.check(res <= 1e-7 * top, op, "NOT-EIGENVECTORS", f"max ||G v - (v'Gv) v|| = {res:.3e} (||G|| ~ {top:.3e})", holder=name)
                ctx.check(bool(np.all(np.abs(rq - ev[:r]) <= 1e-7 * top)), op, "WRONG-EIGENVALUES",
                          lambda: f"Rayleigh quotients {rq.tolist()} vs top-{r} eigenvalues {ev[:r].tolist()} (decreasing)", holder=name)
            continue
        rq = np.array([Vr[:, i] @ G @ Vr[:, i] for i in range(r)])
        res = max(np.linalg.norm(G @ Vr[:, i] - rq[i] * Vr[:, i]) for i in range(r))
        ctx.check(res <= 1e-7 * top, op, "NOT-EIGENVECTORS", f"max ||G v - (v'Gv) v|| = {res:.3e} (||G|| ~ {top:.3e})", holder=name)
        ctx.check(bool(np.all(np.abs(rq - ev[:r]) <= 1e-7 * top)), op, "WRONG-EIGENVALUES",
                  lambda: f"Rayleigh quotients {rq.tolist()} vs top-{r} eigenvalues {ev[:r].tolist()} (decreasing)", holder=name)
        if fs:
            idx = np.argmax(np.abs(Vr), axis=0)
            ctx.check(all(Vr[idx[i], i] > 0 for i in range(r)), op, "SIGN-RULE", "largest-magnitude entry of a column is not positive", holder=name)
        results[name] = Vr
        # principal angles against the reference dominant subspace
        s = np.linalg.svd(ref_sub.T @ Vr, compute_uv=False)
        ctx.check(bool(np.all(s >= 1 - 1e-6)), op, "WRONG-SUBSPACE", f"cosines of principal angles to the dominant subspace: {s.tolist()}", holder=name)
    names = list(results)
    for a, b in itertools.combinations(names, 2):
        s = np.linalg.svd(results[a].T @ results[b], compute_uv=False)
        ctx.check(bool(np.all(s >= 1 - 1e-6)), "nvecs", "HOLDERS-DISAGREE", f"{a} vs {b}: cosines {s.tolist()}", pair=f"{a}/{b}")
