"""C05 -- operations never modify their operands and never alias them (MutSan catalogue sweep)."""
import copy
import itertools
import operator

import numpy as np

from .. import load
from .. import gen
from ..mutsan import Snapshot, collect, digest

np_, ttb = load()
from pyttb import pyttb_utils as U  # noqa: E402

ID = "C05"
MUTSAN = "full"
RULE = ("case = (catalogue entry = public operation x call form, operand order N=1..4, case seed); for each case the MutSan sanitizer snapshots "
        "every ndarray buffer reachable from receiver and arguments, runs the call, and checks (a) operand digests unchanged (only the receiver of a "
        "documented in-place method may change), (b) no result buffer shares memory with an operand buffer unless sharing was requested, confirmed by "
        "poking; parameters that matter for aliasing are forced (identity permutation, same-shape reshape, single-mode selection, negative index "
        "arrays, zero rows in guesses); non-trivial = every case (each is a distinct operation x parameter class x seed); distinct = hash of case")
ANCHORS = [
    "tensor:tensor.permute", "tensor:tensor.reshape", "tensor:tensor.__init__", "sptensor:sptensor.__init__", "ktensor:ktensor.__init__",
    "ttensor:ttensor.__init__", "tenmat:tenmat.__init__", "sptenmat:sptenmat.__init__", "sumtensor:sumtensor.__init__",
    "ktensor:ktensor.ttv", "ktensor:ktensor.fixsigns", "pyttb_utils:tt_ind2sub", "cp_als:cp_als", "cp_apr:cp_apr", "gcp_opt:gcp_opt",
    "hosvd:hosvd", "tucker_als:tucker_als", "ktensor:ktensor.copy", "tensor:tensor.copy", "sptensor:sptensor.copy",
    "sptensor:sptensor.find", "sumtensor:sumtensor.__add__", "ktensor:ktensor.tolist", "ktensor:ktensor.normalize",
]
WATCHDOG = {"quick": 900, "thorough": 3400}
CATALOGUE = {}


def entry(name, orders=(1, 2, 3), inplace=None, share_ok=False):
    def deco(f):
        CATALOGUE[name] = {"make": f, "orders": orders, "inplace": inplace, "share_ok": share_ok}
        return f
    return deco


def nontrivial(case):
    return True


CROSS = ["C01", "C02", "C03", "C06", "C07", "C08", "C12", "C14", "C15", "C17", "C20"]


def gen_cases(tier, seed):
    cs = itertools.count(1)
    reps = 2 if tier == "quick" else 12
    for name, e in CATALOGUE.items():
        for N in e["orders"]:
            for r in range(reps):
                yield {"w": "catalogue", "entry": name, "N": N, "cseed": int(seed) * 15485863 + next(cs)}
    # MutSan armed under the other properties' traffic: their quick workloads are replayed with only the mutation / alias oracle
    # listening (every 12th case in quick, every 2nd in thorough)
    import importlib

    step = 12 if tier == "quick" else 2
    for p in CROSS:
        mod = importlib.import_module(f"pvm.props.{p.lower()}")
        for i, c in enumerate(mod.gen_cases("quick", seed)):
            if i % step == 0:
                yield {"w": "cross", "prop": p, "case": c}


# ------------------------------------------------------------------ operand builders ---------
class Env:
    def __init__(self, rng, N):
        self.rng = rng
        self.N = N
        lo = 2
        self.shape = tuple(int(x) for x in rng.integers(lo, 4, size=N))
        if rng.random() < 0.25:
            s = list(self.shape)
            s[int(rng.integers(0, N))] = 1
            self.shape = tuple(s)

    def arr(self, shape=None, order=None):
        shape = self.shape if shape is None else shape
        a = gen.normals(self.rng, shape) + 0.0
        order = order or ("F" if self.rng.random() < 0.5 else "C")
        return np.array(a, order=order)

    def tensor(self, shape=None):
        return ttb.tensor(self.arr(shape))

    fill = "some"      # sparsity pattern of every sparse holder this Env builds: "some" | "none" (all-zero) | "all" (no zero)

    def sparr(self, shape=None):
        shape = self.shape if shape is None else shape
        return gen.sparsify(self.rng, self.arr(shape), self.fill)

    def sptensor(self, shape=None, A=None):
        A = self.sparr(shape) if A is None else A
        return gen.mk_sptensor(ttb, A, gen.stored_order(self.rng, int(np.count_nonzero(A)), "shuffled"))

    def ktensor(self, shape=None, R=None, positive=False):
        shape = self.shape if shape is None else shape
        R = int(self.rng.integers(1, 4)) if R is None else R
        w, fm = gen.rand_ktensor_parts(self.rng, shape, R, "positive" if positive else "mixed")
        if positive:
            fm = [np.abs(f) + 0.1 for f in fm]
        return ttb.ktensor([np.array(f) for f in fm], np.array(w))

    def ttensor(self, shape=None):
        shape = self.shape if shape is None else shape
        ranks = [int(self.rng.integers(1, 3)) for _ in shape]
        core, fm = gen.rand_ttensor_parts(self.rng, shape, ranks)
        v = self.rng.random()
        if v < 0.7:
            return ttb.ttensor(ttb.tensor(core), [np.array(f) for f in fm])
        # the other storage forms of a Tucker tensor: sparse core, and scipy sparse factor matrices
        import scipy.sparse as sp

        score = gen.mk_sptensor(ttb, np.where(np.abs(core) < 0.3, 0.0, core) if core.size > 1 else core)
        if v < 0.85:
            return ttb.ttensor(score, [np.array(f) for f in fm])
        return ttb.ttensor(score if v < 0.93 else ttb.tensor(core), [sp.coo_matrix(np.array(f)) for f in fm])

    def sumtensor(self):
        return ttb.sumtensor([self.tensor(), self.ktensor()])

    def tenmat(self):
        r, c = self.partition()
        return self.tensor().to_tenmat(np.array(r, dtype=int), np.array(c, dtype=int))

    def sptenmat(self):
        r, c = self.partition()
        return self.sptensor().to_sptenmat(np.array(r, dtype=int), np.array(c, dtype=int))

    def partition(self):
        parts = gen.ordered_partitions(self.N)
        return parts[int(self.rng.integers(0, len(parts)))]

    def vecs(self):
        return [gen.normals(self.rng, (s,)) for s in self.shape]

    def mats(self, J=2, transpose=False):
        return [gen.normals(self.rng, (s, J) if transpose else (J, s)) for s in self.shape]

    def factors(self, R=2):
        return [gen.normals(self.rng, (s, R)) for s in self.shape]

    def dims(self):
        k = int(self.rng.integers(1, self.N + 1))
        return np.array(sorted(int(x) for x in self.rng.permutation(self.N)[:k]))

    def holder(self, kind_):
        return getattr(self, kind_)()


ALLN = (1, 2, 3, 4)
DATA_KINDS = ["tensor", "sptensor", "ktensor", "ttensor", "sumtensor"]

# ------------------------------------------------------------------ constructors / copies -------


@entry("tensor.__init__(copy)", ALLN)
def _(e):
    a = e.arr()
    return "tensor.__init__", ttb.tensor, (a,), {}


@entry("tensor.__init__(shape)", ALLN)
def _(e):
    a = e.arr().reshape(-1, order="F").copy()
    return "tensor.__init__", ttb.tensor, (a, e.shape), {}


@entry("sptensor.__init__(copy)", ALLN)
def _(e):
    A = e.sparr()
    subs = np.argwhere(A != 0)
    if subs.shape[0] == 0:
        A.reshape(-1)[0] = 1.0
        subs = np.argwhere(A != 0)
    vals = A[tuple(subs.T)].reshape(-1, 1)
    return "sptensor.__init__", ttb.sptensor, (subs, vals, e.shape), {}


@entry("sptensor.from_aggregator", ALLN)
def _(e):
    A = e.sparr()
    subs = np.argwhere(A != 0)
    if subs.shape[0] == 0:
        A.reshape(-1)[0] = 1.0
        subs = np.argwhere(A != 0)
    subs = np.vstack((subs, subs[:1]))
    vals = np.ones((subs.shape[0], 1))
    return "sptensor.from_aggregator", ttb.sptensor.from_aggregator, (subs, vals, e.shape), {}


@entry("ktensor.__init__(copy)", ALLN)
def _(e):
    fm = e.factors(2)
    w = np.array([1.5, -2.0])
    return "ktensor.__init__", ttb.ktensor, (fm, w), {}


@entry("ktensor.from_vector", ALLN)
def _(e):
    K = e.ktensor(R=2)
    v = K.tovec(True)
    return "ktensor.from_vector", ttb.ktensor.from_vector, (v, e.shape, True), {}


@entry("ttensor.__init__(copy)", ALLN)
def _(e):
    T = e.ttensor()
    return "ttensor.__init__", ttb.ttensor, (T.core, list(T.factor_matrices)), {}


@entry("sumtensor.__init__(copy)", ALLN)
def _(e):
    return "sumtensor.__init__", ttb.sumtensor, ([e.tensor(), e.ktensor(), e.sptensor()],), {}


@entry("tenmat.__init__(copy)", ALLN)
def _(e):
    M = e.tenmat()
    return "tenmat.__init__", ttb.tenmat, (np.array(M.data), np.array(M.rindices), np.array(M.cindices), tuple(M.tshape)), {}


@entry("sptenmat.__init__(copy)", ALLN)
def _(e):
    M = e.sptenmat()
    if M.subs.size == 0:
        return None
    return "sptenmat.__init__", ttb.sptenmat, (np.array(M.subs), np.array(M.vals), np.array(M.rdims), np.array(M.cdims), tuple(M.tshape)), {}


@entry("sptenmat.from_array", ALLN)
def _(e):
    import scipy.sparse as sp

    M = e.sptenmat()
    arr_ = np.asarray(M.double().toarray())
    src = sp.coo_matrix(arr_) if e.rng.random() < 0.5 else arr_
    return "sptenmat.from_array", ttb.sptenmat.from_array, (src, np.array(M.rdims), np.array(M.cdims), tuple(M.tshape)), {}


for _k in DATA_KINDS + ["tenmat", "sptenmat"]:
    def _mk(kind_):
        @entry(f"{kind_}.copy", ALLN)
        def _a(e, kind_=kind_):
            X = e.holder(kind_)
            return f"{kind_}.copy", X.copy, (), {}

        @entry(f"{kind_}.__deepcopy__", (2, 3))
        def _b(e, kind_=kind_):
            X = e.holder(kind_)
            return f"{kind_}.__deepcopy__", copy.deepcopy, (X,), {}

        @entry(f"{kind_}.__pos__", ALLN)
        def _c(e, kind_=kind_):
            X = e.holder(kind_)
            return f"{kind_}.__pos__", operator.pos, (X,), {}

        @entry(f"{kind_}.__neg__", (2, 3))
        def _d(e, kind_=kind_):
            X = e.holder(kind_)
            return f"{kind_}.__neg__", operator.neg, (X,), {}
    _mk(_k)

# ------------------------------------------------------------------ observers --------------------
# printing and the read-only properties observe an object: they change nothing and hand out nothing the object depends on
for _k in DATA_KINDS + ["tenmat", "sptenmat"]:
    def _mk_obs(kind_):
        @entry(f"{kind_}.__repr__", ALLN)
        def _a(e, kind_=kind_):
            return f"{kind_}.__repr__", repr, (e.holder(kind_),), {}

        @entry(f"{kind_}.__str__", (2, 3))
        def _b(e, kind_=kind_):
            return f"{kind_}.__str__", str, (e.holder(kind_),), {}

        for prop_ in ("shape", "ndims", "order", "nnz", "ncomponents", "tshape"):
            @entry(f"{kind_}.{prop_}", (2, 3))
            def _c(e, kind_=kind_, prop_=prop_):
                X = e.holder(kind_)
                if not hasattr(type(X), prop_) and not hasattr(X, prop_):
                    return None
                return f"{kind_}.{prop_}", getattr, (X, prop_), {}
    _mk_obs(_k)

# ------------------------------------------------------------------ conversions -----------------
for _k in DATA_KINDS:
    def _mk2(kind_):
        for meth in ("full", "double") + (("to_tensor",) if kind_ != "tensor" else ()):
            @entry(f"{kind_}.{meth}", ALLN)
            def _a(e, kind_=kind_, meth=meth):
                X = e.holder(kind_)
                return f"{kind_}.{meth}", getattr(X, meth), (), {}
    _mk2(_k)

# a sparse tensor that stores every entry, listed in the order of the dense layout (first subscript fastest) or in row-major order
for _lay in ("F", "C"):
    for _meth in ("full", "to_tensor", "double", "copy", "to_sptenmat"):
        def _mk2f(lay, meth):
            @entry(f"sptensor[every entry stored, {lay} order].{meth}", (1, 2, 3))
            def _a(e, lay=lay, meth=meth):
                A = np.abs(e.arr()) + 0.5
                subs = np.stack(np.unravel_index(np.arange(A.size), A.shape, order=lay), axis=1)
                S = ttb.sptensor(subs.copy(), A[tuple(subs.T)].reshape(-1, 1).copy(), A.shape)
                if meth == "to_sptenmat":
                    return "sptensor.to_sptenmat", S.to_sptenmat, (np.array([0]),), {}
                return f"sptensor.{meth}", getattr(S, meth), (), {}
        _mk2f(_lay, _meth)

# sums with a single part, and with a dense part in first / last place: what they return must not be one of the parts
for _parts in (("tensor",), ("sptensor",), ("ktensor",), ("ttensor",), ("tensor", "tensor"), ("tensor", "sptensor"), ("sptensor", "tensor"), ("ktensor", "tensor")):
    for _meth in ("full", "double", "to_tensor", "copy", "__neg__", "__pos__"):
        def _mk2s(parts, meth):
            @entry(f"sumtensor[{'+'.join(parts)}].{meth}", (2, 3))
            def _a(e, parts=parts, meth=meth):
                return f"sumtensor.{meth}", getattr(ttb.sumtensor([e.holder(k_) for k_ in parts]), meth), (), {}
        _mk2s(_parts, _meth)


@entry("tensor.find", ALLN)
def _(e):
    return "tensor.find", e.tensor().find, (), {}


@entry("sptensor.find", ALLN)
def _(e):
    return "sptensor.find", e.sptensor().find, (), {}


@entry("tensor.to_sptensor", ALLN)
def _(e):
    return "tensor.to_sptensor", ttb.tensor(e.sparr()).to_sptensor, (), {}


@entry("tensor.to_tenmat", ALLN)
def _(e):
    r, c = e.partition()
    return "tensor.to_tenmat", e.tensor().to_tenmat, (np.array(r, dtype=int), np.array(c, dtype=int)), {}


@entry("tensor.to_tenmat(identity)", ALLN)
def _(e):
    k = int(e.rng.integers(0, e.N + 1))
    return "tensor.to_tenmat", e.tensor().to_tenmat, (np.arange(0, k), np.arange(k, e.N)), {}


@entry("ktensor.to_tenmat", (2, 3))
def _(e):
    r, c = e.partition()
    return "ktensor.to_tenmat", e.ktensor().to_tenmat, (np.array(r, dtype=int), np.array(c, dtype=int)), {}


@entry("sptensor.to_sptenmat", ALLN)
def _(e):
    r, c = e.partition()
    return "sptensor.to_sptenmat", e.sptensor().to_sptenmat, (np.array(r, dtype=int), np.array(c, dtype=int)), {}


@entry("sptensor.spmatrix", (2,))
def _(e):
    return "sptensor.spmatrix", e.sptensor().spmatrix, (), {}


@entry("tenmat.to_tensor", ALLN)
def _(e):
    return "tenmat.to_tensor", e.tenmat().to_tensor, (), {}


@entry("tenmat.to_tensor(identity)", ALLN)
def _(e):
    k = int(e.rng.integers(0, e.N + 1))
    M = e.tensor().to_tenmat(np.arange(0, k), np.arange(k, e.N))
    return "tenmat.to_tensor", M.to_tensor, (), {}


@entry("tenmat.ctranspose", (2, 3))
def _(e):
    return "tenmat.ctranspose", e.tenmat().ctranspose, (), {}


@entry("tenmat.double", (2, 3))
def _(e):
    return "tenmat.double", e.tenmat().double, (), {}


@entry("sptenmat.to_sptensor", ALLN)
def _(e):
    return "sptenmat.to_sptensor", e.sptenmat().to_sptensor, (), {}


@entry("sptenmat.full", (2, 3))
def _(e):
    return "sptenmat.full", e.sptenmat().full, (), {}


@entry("sptenmat.double", (2, 3))
def _(e):
    return "sptenmat.double", e.sptenmat().double, (), {}


@entry("ktensor.tolist", ALLN)
def _(e):
    return "ktensor.tolist", e.ktensor().tolist, (), {}


@entry("ktensor.tolist(mode)", ALLN)
def _(e):
    return "ktensor.tolist", e.ktensor().tolist, (int(e.rng.integers(0, e.N)),), {}


@entry("ktensor.tovec", ALLN)
def _(e):
    return "ktensor.tovec", e.ktensor().tovec, (bool(e.rng.integers(0, 2)),), {}


# ------------------------------------------------------------------ index maps ------------------
for _k in ("tensor", "sptensor", "ktensor", "ttensor"):
    def _mk3(kind_):
        @entry(f"{kind_}.permute(identity)", ALLN)
        def _a(e, kind_=kind_):
            return f"{kind_}.permute", e.holder(kind_).permute, (np.arange(e.N),), {}

        @entry(f"{kind_}.permute", (2, 3, 4))
        def _b(e, kind_=kind_):
            p = np.roll(np.arange(e.N), 1)
            return f"{kind_}.permute", e.holder(kind_).permute, (p,), {}
    _mk3(_k)


@entry("tensor.reshape(same)", ALLN)
def _(e):
    return "tensor.reshape", e.tensor().reshape, (e.shape,), {}


@entry("tensor.reshape", (2, 3))
def _(e):
    return "tensor.reshape", e.tensor().reshape, ((int(np.prod(e.shape)),),), {}


@entry("sptensor.reshape(same)", ALLN)
def _(e):
    return "sptensor.reshape", e.sptensor().reshape, (e.shape,), {}


@entry("sptensor.reshape", (2, 3))
def _(e):
    return "sptensor.reshape", e.sptensor().reshape, ((int(np.prod(e.shape)),),), {}


for _k in ("tensor", "sptensor"):
    def _mk4(kind_):
        @entry(f"{kind_}.squeeze", ALLN)
        def _a(e, kind_=kind_):
            return f"{kind_}.squeeze", e.holder(kind_).squeeze, (), {}
    _mk4(_k)


@entry("tensor.squeeze(no singleton)", (2, 3))
def _(e):
    e.shape = tuple(max(2, s) for s in e.shape)
    return "tensor.squeeze", e.tensor().squeeze, (), {}


@entry("sptensor.squeeze(no singleton)", (2, 3))
def _(e):
    e.shape = tuple(max(2, s) for s in e.shape)
    return "sptensor.squeeze", e.sptensor().squeeze, (), {}


# ------------------------------------------------------------------ kernels ----------------------
for _k in DATA_KINDS:
    def _mk5(kind_):
        @entry(f"{kind_}.ttv", ALLN)
        def _a(e, kind_=kind_):
            d = e.dims()
            v = e.vecs()
            return f"{kind_}.ttv", e.holder(kind_).ttv, ([v[i] for i in d], d), {}

        @entry(f"{kind_}.ttv(single)", ALLN)
        def _b(e, kind_=kind_):
            d = int(e.rng.integers(0, e.N))
            return f"{kind_}.ttv", e.holder(kind_).ttv, (e.vecs()[d], d), {}

        @entry(f"{kind_}.ttv(no mode selected)", ALLN)
        def _b2(e, kind_=kind_):
            # a product over no mode at all is the tensor itself -- as a new, independent object
            form = int(e.rng.integers(0, 3))
            none = np.array([], dtype=int)
            if form == 0:
                return f"{kind_}.ttv", e.holder(kind_).ttv, ([], none), {}
            if form == 1:
                return f"{kind_}.ttv", e.holder(kind_).ttv, (e.vecs(), none), {}
            return f"{kind_}.ttv", e.holder(kind_).ttv, (e.vecs(),), {"exclude_dims": np.arange(e.N)}

        @entry(f"{kind_}.mttkrp", (2, 3, 4))
        def _c(e, kind_=kind_):
            return f"{kind_}.mttkrp", e.holder(kind_).mttkrp, (e.factors(2), int(e.rng.integers(0, e.N))), {}

        @entry(f"{kind_}.mttkrp(ktensor)", (2, 3))
        def _d(e, kind_=kind_):
            return f"{kind_}.mttkrp", e.holder(kind_).mttkrp, (e.ktensor(R=2), int(e.rng.integers(0, e.N))), {}

        for other in DATA_KINDS[:4]:
            @entry(f"{kind_}.innerprod({other})", (2, 3))
            def _e(e, kind_=kind_, other=other):
                return f"{kind_}.innerprod", e.holder(kind_).innerprod, (e.holder(other),), {}
        if kind_ != "sumtensor":
            @entry(f"{kind_}.norm", ALLN)
            def _f(e, kind_=kind_):
                return f"{kind_}.norm", e.holder(kind_).norm, (), {}

            @entry(f"{kind_}.nvecs", (2, 3))
            def _g(e, kind_=kind_):
                n = int(e.rng.integers(0, e.N))
                return f"{kind_}.nvecs", e.holder(kind_).nvecs, (n, 1), {}
    _mk5(_k)

for _k in ("tensor", "sptensor", "ttensor"):
    def _mk6(kind_):
        @entry(f"{kind_}.ttm", ALLN)
        def _a(e, kind_=kind_):
            d = e.dims()
            m = e.mats()
            return f"{kind_}.ttm", e.holder(kind_).ttm, ([m[i] for i in d], d), {}

        @entry(f"{kind_}.ttm(single,transpose)", ALLN)
        def _b(e, kind_=kind_):
            d = int(e.rng.integers(0, e.N))
            return f"{kind_}.ttm", e.holder(kind_).ttm, (e.mats(transpose=True)[d], d), {"transpose": True}
    _mk6(_k)


@entry("tensor.mttkrps", (2, 3, 4))
def _(e):
    return "tensor.mttkrps", e.tensor().mttkrps, (e.factors(2),), {}


@entry("tensor.ttt", (1, 2, 3))
def _(e):
    return "tensor.ttt", e.tensor().ttt, (e.tensor(),), {}


@entry("tensor.ttt(contract)", (1, 2, 3))
def _(e):
    d = e.dims()
    return "tensor.ttt", e.tensor().ttt, (e.tensor(), d, d.copy()), {}


@entry("tensor.ttsv", (2, 3))
def _(e):
    e.shape = (2,) * e.N
    return "tensor.ttsv", e.tensor().ttsv, (gen.normals(e.rng, (2,)),), {"skip_dim": 0}


for _k in ("tensor", "sptensor"):
    def _mk7(kind_):
        @entry(f"{kind_}.collapse", ALLN)
        def _a(e, kind_=kind_):
            return f"{kind_}.collapse", e.holder(kind_).collapse, (e.dims(),), {}

        @entry(f"{kind_}.contract", (2, 3))
        def _b(e, kind_=kind_):
            s = list(e.shape)
            s[1] = s[0]
            e.shape = tuple(s)
            return f"{kind_}.contract", e.holder(kind_).contract, (0, 1), {}

        @entry(f"{kind_}.scale", ALLN)
        def _c(e, kind_=kind_):
            d = int(e.rng.integers(0, e.N))
            return f"{kind_}.scale", e.holder(kind_).scale, (gen.normals(e.rng, (e.shape[d],)), np.array([d])), {}

        @entry(f"{kind_}.scale(tensor)", (2, 3))
        def _d(e, kind_=kind_):
            d = e.dims()
            return f"{kind_}.scale", e.holder(kind_).scale, (ttb.tensor(gen.normals(e.rng, tuple(e.shape[i] for i in d))), d), {}

        @entry(f"{kind_}.isequal", (2,))
        def _e(e, kind_=kind_):
            return f"{kind_}.isequal", e.holder(kind_).isequal, (e.holder(kind_),), {}

        for lop in ("logical_and", "logical_or", "logical_xor"):
            @entry(f"{kind_}.{lop}", (1, 2, 3))
            def _f(e, kind_=kind_, lop=lop):
                return f"{kind_}.{lop}", getattr(e.holder(kind_), lop), (e.holder(kind_),), {}

            @entry(f"{kind_}.{lop}(dense)", (2,))
            def _g(e, kind_=kind_, lop=lop):
                return f"{kind_}.{lop}", getattr(e.holder(kind_), lop), (e.tensor(),), {}

            @entry(f"{kind_}.{lop}(scalar)", (2,))
            def _h(e, kind_=kind_, lop=lop):
                return f"{kind_}.{lop}", getattr(e.holder(kind_), lop), (1.0,), {}

        @entry(f"{kind_}.logical_not", ALLN)
        def _i(e, kind_=kind_):
            return f"{kind_}.logical_not", e.holder(kind_).logical_not, (), {}
        for oname in ("add", "sub", "mul", "truediv", "eq", "ne", "lt", "le", "gt", "ge"):
            @entry(f"{kind_}.__{oname}__", (1, 2, 3))
            def _j(e, kind_=kind_, oname=oname):
                return f"{kind_}.__{oname}__", getattr(operator, oname), (e.holder(kind_), e.holder(kind_)), {}

            @entry(f"{kind_}.__{oname}__(scalar)", (2,))
            def _k2(e, kind_=kind_, oname=oname):
                return f"{kind_}.__{oname}__", getattr(operator, oname), (e.holder(kind_), 2.0), {}

            @entry(f"{kind_}.__{oname}__(mixed)", (2,))
            def _l(e, kind_=kind_, oname=oname):
                other = e.tensor() if kind_ == "sptensor" else e.sptensor()
                if kind_ == "tensor" and oname in ("add", "sub", "mul", "truediv", "eq", "ne", "lt", "le", "gt", "ge"):
                    other = e.tensor()
                return f"{kind_}.__{oname}__", getattr(operator, oname), (e.holder(kind_), other), {}

        @entry(f"{kind_}.__rmul__", (2,))
        def _m(e, kind_=kind_):
            return f"{kind_}.__rmul__", operator.mul, (3.0, e.holder(kind_)), {}

        @entry(f"{kind_}.__rtruediv__", (2,))
        def _n(e, kind_=kind_):
            return f"{kind_}.__rtruediv__", operator.truediv, (3.0, e.holder(kind_)), {}
    _mk7(_k)


@entry("tensor.__pow__", (2,))
def _(e):
    return "tensor.__pow__", operator.pow, (e.tensor(), 2), {}


@entry("tensor.__radd__", (2,))
def _(e):
    return "tensor.__radd__", operator.add, (3.0, e.tensor()), {}


@entry("tensor.exp", (2,))
def _(e):
    return "tensor.exp", e.tensor().exp, (), {}


@entry("tensor.tenfun", (2,))
def _(e):
    return "tensor.tenfun", e.tensor().tenfun, (lambda x: x + 1,), {}


@entry("tensor.tenfun(identity)", (2, 3))
def _(e):
    return "tensor.tenfun", e.tensor().tenfun, (lambda x: x,), {}


@entry("tensor.tenfun_binary", (2,))
def _(e):
    return "tensor.tenfun_binary", e.tensor().tenfun_binary, (lambda x, y: x + y, e.tensor()), {}


@entry("tensor.tenfun_binary(first operand returned)", (2,))
def _(e):
    return "tensor.tenfun_binary", e.tensor().tenfun_binary, (lambda x, y: x, e.tensor()), {}


@entry("tensor.tenfun_unary", (2,))
def _(e):
    return "tensor.tenfun_unary", e.tensor().tenfun_unary, (lambda x: x * 2,), {}


@entry("tensor.mask", (1, 2, 3))
def _(e):
    return "tensor.mask", e.tensor().mask, (ttb.tensor((e.sparr() != 0).astype(float)),), {}


@entry("sptensor.mask", (1, 2, 3))
def _(e):
    return "sptensor.mask", e.sptensor().mask, (e.sptensor(),), {}


@entry("ktensor.mask", (1, 2, 3))
def _(e):
    return "ktensor.mask", e.ktensor().mask, (e.sptensor(),), {}


@entry("tensor.symmetrize", (2, 3))
def _(e):
    e.shape = (2,) * e.N
    return "tensor.symmetrize", e.tensor().symmetrize, (), {}


@entry("tensor.symmetrize(symmetric input)", (2,))
def _(e):
    a = e.arr((2, 2))
    return "tensor.symmetrize", ttb.tensor(a + a.T).symmetrize, (), {}


@entry("tensor.issymmetric", (2, 3))
def _(e):
    e.shape = (2,) * e.N
    return "tensor.issymmetric", e.tensor().issymmetric, (), {}


@entry("ktensor.symmetrize", (2, 3))
def _(e):
    e.shape = (2,) * e.N
    return "ktensor.symmetrize", e.ktensor(positive=True).symmetrize, (), {}


@entry("ktensor.issymmetric", (2, 3))
def _(e):
    e.shape = (2,) * e.N
    return "ktensor.issymmetric", e.ktensor().issymmetric, (), {}


@entry("sptensor.elemfun", ALLN)
def _(e):
    return "sptensor.elemfun", e.sptensor().elemfun, (lambda v: v + 1,), {}


@entry("sptensor.elemfun(identity)", ALLN)
def _(e):
    return "sptensor.elemfun", e.sptensor().elemfun, (lambda v: v,), {}


@entry("sptensor.ones", ALLN)
def _(e):
    return "sptensor.ones", e.sptensor().ones, (), {}


@entry("sptensor.allsubs", (2,))
def _(e):
    return "sptensor.allsubs", e.sptensor().allsubs, (), {}


@entry("sptensor.extract", ALLN)
def _(e):
    S = e.sptensor()
    subs = np.stack([e.rng.integers(0, s, size=3) for s in e.shape], axis=1)
    return "sptensor.extract", S.extract, (subs,), {}


@entry("sptensor.squash", (2, 3))
def _(e):
    S = e.sptensor()
    if S.nnz == 0:
        return None
    return "sptensor.squash", S.squash, (), {}


@entry("sptensor.subdims", (2, 3))
def _(e):
    return "sptensor.subdims", e.sptensor().subdims, ([slice(None)] * e.N,), {}


# ------------------------------------------------------------------ get / set item ---------------
for _k in ("tensor", "sptensor"):
    def _mk8(kind_):
        @entry(f"{kind_}.__getitem__(all)", ALLN)
        def _a(e, kind_=kind_):
            X = e.holder(kind_)
            return f"{kind_}.__getitem__", X.__getitem__, (tuple([slice(None)] * e.N),), {}

        @entry(f"{kind_}.__getitem__(region)", (2, 3))
        def _b(e, kind_=kind_):
            X = e.holder(kind_)
            key = tuple([slice(0, max(1, s - 1)) for s in e.shape])
            return f"{kind_}.__getitem__", X.__getitem__, (key,), {}

        @entry(f"{kind_}.__getitem__(offset region holding every nonzero)", (2, 3))
        def _b2(e, kind_=kind_):
            # all stored entries lie inside the region that is read, and the region does not start at the origin (its subscripts are renumbered)
            e.shape = tuple(s_ + 2 for s_ in e.shape)
            A = np.zeros(e.shape)
            inner = tuple(slice(1, s_ - 1) if e.rng.random() < 0.7 else slice(1, s_) for s_ in e.shape)
            A[inner] = e.sparr(A[inner].shape) if kind_ == "sptensor" else e.arr(A[inner].shape)
            X = e.sptensor(A=A) if kind_ == "sptensor" else ttb.tensor(A)
            forms = [inner, tuple(list(range(k_.start, k_.stop))[::-1] for k_ in inner), tuple([1] + list(inner[1:]))]
            return f"{kind_}.__getitem__", X.__getitem__, (forms[int(e.rng.integers(0, 3))],), {}

        @entry(f"{kind_}.__getitem__(bare slice of linear indices)", ALLN)
        def _b3(e, kind_=kind_):
            if kind_ == "sptensor" and e.N > 1:
                return None
            X = e.holder(kind_)
            n_ = int(np.prod(e.shape))
            key = [slice(None), slice(0, n_), slice(1, None), slice(None, None, -1), slice(0, n_, 2)][int(e.rng.integers(0, 5))]
            return f"{kind_}.__getitem__", X.__getitem__, (key,), {}

        @entry(f"{kind_}.__getitem__(subs)", ALLN)
        def _c(e, kind_=kind_):
            X = e.holder(kind_)
            subs = np.stack([e.rng.integers(0, s, size=3) for s in e.shape], axis=1)
            return f"{kind_}.__getitem__", X.__getitem__, (subs,), {}

        @entry(f"{kind_}.__getitem__(linear,negative)", ALLN)
        def _d(e, kind_=kind_):
            X = e.holder(kind_)
            idx = np.array([-1, 0, -2 if int(np.prod(e.shape)) > 1 else -1])
            return f"{kind_}.__getitem__", X.__getitem__, (idx,), {}

        @entry(f"{kind_}.__setitem__(subs)", ALLN, inplace=True)
        def _e(e, kind_=kind_):
            X = e.holder(kind_)
            subs = np.unique(np.stack([e.rng.integers(0, s, size=3) for s in e.shape], axis=1), axis=0)
            vals = np.arange(1.0, subs.shape[0] + 1)
            if kind_ == "sptensor":
                vals = vals.reshape(-1, 1)
            return f"{kind_}.__setitem__", X.__setitem__, (subs, vals), {}

        @entry(f"{kind_}.__setitem__(region,tensor rhs)", (2, 3), inplace=True)
        def _f(e, kind_=kind_):
            X = e.holder(kind_)
            key = tuple([slice(0, s) for s in e.shape])
            rhs = e.tensor() if kind_ == "tensor" else e.sptensor()
            return f"{kind_}.__setitem__", X.__setitem__, (key, rhs), {}
    _mk8(_k)


@entry("sptensor.__setitem__(offset region,sptensor rhs)", (1, 2, 3), inplace=True)
def _(e):
    e.shape = tuple(s + 2 for s in e.shape)
    X = e.sptensor()
    key = tuple([slice(1, s) for s in e.shape])
    rhs = Env(e.rng, e.N)
    rhs.shape = tuple(s - 1 for s in e.shape)
    R = ttb.tensor(np.abs(rhs.arr()) + 0.5).to_sptensor()
    return "sptensor.__setitem__", X.__setitem__, (key, R), {}


@entry("sptensor.__setitem__(index lists,sptensor rhs)", (2, 3), inplace=True)
def _(e):
    e.shape = tuple(s + 2 for s in e.shape)
    X = e.sptensor()
    key = tuple([[s - 1, 1] for s in e.shape])
    R = ttb.tensor(np.abs(gen.normals(e.rng, (2,) * e.N)) + 0.5).to_sptensor()
    return "sptensor.__setitem__", X.__setitem__, (key, R), {}


@entry("tensor.__setitem__(offset region,tensor rhs)", (1, 2, 3), inplace=True)
def _(e):
    e.shape = tuple(s + 2 for s in e.shape)
    X = e.tensor()
    key = tuple([slice(1, s) for s in e.shape])
    return "tensor.__setitem__", X.__setitem__, (key, ttb.tensor(gen.normals(e.rng, tuple(s - 1 for s in e.shape)))), {}


@entry("tensor.__setitem__(linear,negative)", ALLN, inplace=True)
def _(e):
    X = e.tensor()
    idx = np.array([-1, 0])
    if int(np.prod(e.shape)) < 2:
        idx = np.array([-1])
    return "tensor.__setitem__", X.__setitem__, (idx, 5.0), {}


@entry("tenmat.__getitem__", (2, 3))
def _(e):
    M = e.tenmat()
    return "tenmat.__getitem__", M.__getitem__, ((slice(None), slice(None)),), {}


@entry("tenmat.__setitem__", (2, 3), inplace=True)
def _(e):
    M = e.tenmat()
    return "tenmat.__setitem__", M.__setitem__, ((0, 0), 3.0), {}


@entry("sptenmat.__setitem__", (2, 3), inplace=True)
def _(e):
    M = e.sptenmat()
    return "sptenmat.__setitem__", M.__setitem__, ((0, 0), 3.0), {}


for _o in ("add", "sub", "mul"):
    def _mk9(oname):
        @entry(f"tenmat.__{oname}__", (2, 3))
        def _a(e, oname=oname):
            M = e.tenmat()
            if oname == "mul":
                return f"tenmat.__{oname}__", operator.mul, (M, M.ctranspose()), {}
            return f"tenmat.__{oname}__", getattr(operator, oname), (M, M.copy()), {}

        @entry(f"tenmat.__{oname}__(scalar)", (2,))
        def _b(e, oname=oname):
            return f"tenmat.__{oname}__", getattr(operator, oname), (e.tenmat(), 2.0), {}

        @entry(f"tenmat.__r{oname}__", (2,))
        def _c(e, oname=oname):
            return f"tenmat.__r{oname}__", getattr(operator, oname), (2.0, e.tenmat()), {}
    _mk9(_o)


@entry("tenmat.norm", (2,))
def _(e):
    return "tenmat.norm", e.tenmat().norm, (), {}


@entry("tenmat.isequal", (2,))
def _(e):
    M = e.tenmat()
    return "tenmat.isequal", M.isequal, (M.copy(),), {}


@entry("sptenmat.norm", (2,))
def _(e):
    return "sptenmat.norm", e.sptenmat().norm, (), {}


@entry("sptenmat.isequal", (2,))
def _(e):
    M = e.sptenmat()
    return "sptenmat.isequal", M.isequal, (M.copy(),), {}


# ------------------------------------------------------------------ Kruskal re-parameterisations --
@entry("ktensor.arrange", ALLN, inplace=True)
def _(e):
    return "ktensor.arrange", e.ktensor(R=3).arrange, (), {}


@entry("ktensor.arrange(permutation)", ALLN, inplace=True)
def _(e):
    return "ktensor.arrange", e.ktensor(R=3).arrange, (), {"permutation": np.array([2, 0, 1])}


@entry("ktensor.fixsigns", ALLN, inplace=True)
def _(e):
    return "ktensor.fixsigns", e.ktensor().fixsigns, (), {}


@entry("ktensor.fixsigns(other)", ALLN, inplace=True)
def _(e):
    K = e.ktensor(R=2)
    O = K.copy()
    for f in O.factor_matrices:
        f *= 1.7
    O.weights *= 0.5
    return "ktensor.fixsigns", K.fixsigns, (O,), {}


@entry("ktensor.normalize", ALLN, inplace=True)
def _(e):
    return "ktensor.normalize", e.ktensor().normalize, (), {"sort": True}


@entry("ktensor.normalize(mode)", ALLN, inplace=True)
def _(e):
    return "ktensor.normalize", e.ktensor().normalize, (), {"mode": int(e.rng.integers(0, e.N))}


@entry("ktensor.normalize(weight_factor)", ALLN, inplace=True)
def _(e):
    return "ktensor.normalize", e.ktensor().normalize, (), {"weight_factor": "all"}


@entry("ktensor.redistribute", ALLN, inplace=True)
def _(e):
    return "ktensor.redistribute", e.ktensor().redistribute, (int(e.rng.integers(0, e.N)),), {}


@entry("ktensor.update", ALLN, inplace=True)
def _(e):
    K = e.ktensor(R=2)
    m = int(e.rng.integers(0, e.N))
    data = gen.normals(e.rng, (e.shape[m] * 2,))
    return "ktensor.update", K.update, (m, data), {}


@entry("ktensor.update(weights)", ALLN, inplace=True)
def _(e):
    K = e.ktensor(R=2)
    return "ktensor.update", K.update, (-1, gen.normals(e.rng, (2,))), {}


@entry("ktensor.update(weights+modes)", ALLN, inplace=True)
def _(e):
    K = e.ktensor(R=2)
    modes = [-1] + sorted(int(x) for x in e.rng.permutation(e.N)[: int(e.rng.integers(1, e.N + 1))])
    data = gen.normals(e.rng, (2 + 2 * sum(e.shape[m] for m in modes[1:]),))
    return "ktensor.update", K.update, (modes, data), {}


@entry("ktensor.update(everything, tovec)", ALLN, inplace=True)
def _(e):
    K = e.ktensor(R=2)
    data = np.asarray(e.ktensor(R=2).tovec(True), dtype=float)
    return "ktensor.update", K.update, ([-1] + list(range(e.N)), data), {}


@entry("ktensor.extract", ALLN)
def _(e):
    return "ktensor.extract", e.ktensor(R=3).extract, (np.array([0, 2]),), {}


@entry("ktensor.extract(all)", ALLN)
def _(e):
    return "ktensor.extract", e.ktensor(R=2).extract, (), {}


@entry("ktensor.extract(single)", ALLN)
def _(e):
    return "ktensor.extract", e.ktensor(R=2).extract, (1,), {}


@entry("ktensor.score", (2, 3))
def _(e):
    K = e.ktensor(R=2, positive=True)
    O = K.copy()
    O.arrange(permutation=np.array([1, 0]))
    return "ktensor.score", K.score, (O,), {}


@entry("ktensor.isequal", (2,))
def _(e):
    K = e.ktensor()
    return "ktensor.isequal", K.isequal, (K.copy(),), {}


for _o in ("add", "sub"):
    def _mk10(oname):
        @entry(f"ktensor.__{oname}__", ALLN)
        def _a(e, oname=oname):
            return f"ktensor.__{oname}__", getattr(operator, oname), (e.ktensor(), e.ktensor()), {}
    _mk10(_o)


@entry("ktensor.__mul__", ALLN)
def _(e):
    return "ktensor.__mul__", operator.mul, (e.ktensor(), 2.0), {}


@entry("ktensor.__rmul__", ALLN)
def _(e):
    return "ktensor.__rmul__", operator.mul, (2.0, e.ktensor()), {}


@entry("ttensor.__mul__", (2, 3))
def _(e):
    return "ttensor.__mul__", operator.mul, (e.ttensor(), 2.0), {}


@entry("ttensor.__rmul__", (2, 3))
def _(e):
    return "ttensor.__rmul__", operator.mul, (2.0, e.ttensor()), {}


@entry("ttensor.reconstruct", (2, 3))
def _(e):
    return "ttensor.reconstruct", e.ttensor().reconstruct, (), {}


@entry("ttensor.reconstruct(samples)", (2, 3))
def _(e):
    return "ttensor.reconstruct", e.ttensor().reconstruct, ([np.array([0])], [0]), {}


@entry("ttensor.isequal", (2,))
def _(e):
    T = e.ttensor()
    return "ttensor.isequal", T.isequal, (T.copy(),), {}


@entry("sumtensor.__add__", (2, 3))
def _(e):
    return "sumtensor.__add__", operator.add, (e.sumtensor(), e.tensor()), {}


@entry("sumtensor.__add__(list)", (2, 3))
def _(e):
    return "sumtensor.__add__", operator.add, (e.sumtensor(), [e.tensor(), e.ktensor()]), {}


@entry("sumtensor.__radd__", (2, 3))
def _(e):
    return "sumtensor.__radd__", operator.add, (e.ktensor(), e.sumtensor()), {}


@entry("ktensor.viz", (2, 3))
def _(e):
    import matplotlib

    matplotlib.use("Agg")
    return "ktensor.viz", _viz, (e.ktensor(R=2),), {}


def _viz(K):
    import matplotlib.pyplot as plt

    fig, axs = K.viz(show_figure=False)
    plt.close(fig)
    return None


# ------------------------------------------------------------------ helpers ----------------------
@entry("tt_ind2sub(negative)", (1, 2, 3))
def _(e):
    size = int(np.prod(e.shape))
    return "tt_ind2sub", U.tt_ind2sub, (e.shape, np.array([-1, 0, size - 1])), {}


@entry("tt_sub2ind", (1, 2, 3))
def _(e):
    subs = np.stack([e.rng.integers(0, s, size=3) for s in e.shape], axis=1)
    return "tt_sub2ind", U.tt_sub2ind, (e.shape, subs), {}


@entry("tt_rows", (2,))
def _(e):
    A = e.rng.integers(0, 3, size=(4, 2))
    B = e.rng.integers(0, 3, size=(3, 2))
    fn = [U.tt_union_rows, U.tt_intersect_rows, U.tt_setdiff_rows, U.tt_ismember_rows][int(e.rng.integers(0, 4))]
    return fn.__name__, fn, (A, B), {}


@entry("khatrirao", (2, 3))
def _(e):
    return "khatrirao", ttb.khatrirao, tuple(e.factors(2)), {}


@entry("khatrirao(single)", (1,))
def _(e):
    return "khatrirao", ttb.khatrirao, tuple(e.factors(2)), {}


# ------------------------------------------------------------------ algorithms -------------------
def _algo_data(e, kind_):
    K = e.ktensor(R=2, positive=True)
    A = K.full().data + 0.01 * np.abs(gen.normals(e.rng, e.shape))
    if kind_ == "sptensor":
        A = np.where(e.rng.random(e.shape) < 0.3, 0.0, A)
        return e.sptensor(A=A)
    return ttb.tensor(A.copy())


for _dk in ("tensor", "sptensor"):
    def _mk11(dk):
        for initk in ("given", "random", "nvecs"):
            @entry(f"cp_als({dk},{initk})", (3,))
            def _a(e, dk=dk, initk=initk):
                e.shape = tuple(max(3, s) for s in e.shape)
                X = _algo_data(e, dk)
                init = e.ktensor(R=2, positive=True) if initk == "given" else initk
                return "cp_als", ttb.cp_als, (X, 2), {"init": init, "maxiters": 3, "printitn": 0}
        for alg in ("mu", "pdnr", "pqnr"):
            @entry(f"cp_apr({dk},{alg})", (2, 3))
            def _b(e, dk=dk, alg=alg):
                e.shape = tuple(max(3, s) for s in e.shape)
                K = e.ktensor(R=2, positive=True)
                A = np.floor(K.full().data * 3)
                X = e.sptensor(A=A) if dk == "sptensor" else ttb.tensor(A.copy())
                init = e.ktensor(R=2, positive=True)
                init.factor_matrices[0][0, :] = 0.0  # a zero row in the caller's guess
                return "cp_apr", ttb.cp_apr, (X, 2), {"init": init, "algorithm": alg, "maxiters": 2, "printitn": 0, "printinneritn": 0}
    _mk11(_dk)


@entry("gcp_opt(lbfgsb)", (2, 3))
def _(e):
    from pyttb.gcp.optimizers import LBFGSB

    e.shape = tuple(max(3, s) for s in e.shape)
    X = _algo_data(e, "tensor")
    init = e.ktensor(R=2, positive=True)
    from pyttb.gcp.fg_setup import Objectives

    return "gcp_opt", ttb.gcp_opt, (X, 2, Objectives.GAUSSIAN, LBFGSB(maxiter=3)), {"init": init, "printitn": 0}


@entry("gcp_opt(adam)", (2, 3))
def _(e):
    from pyttb.gcp.optimizers import Adam

    e.shape = tuple(max(3, s) for s in e.shape)
    X = _algo_data(e, "tensor")
    init = e.ktensor(R=2, positive=True)
    from pyttb.gcp.fg_setup import Objectives

    return "gcp_opt", ttb.gcp_opt, (X, 2, Objectives.GAUSSIAN, Adam(max_iters=2, epoch_iters=2)), {"init": init, "printitn": 0}


@entry("gcp_opt(guess as a list of matrices)", (2, 3))
def _(e):
    # the guess handed over as plain matrices, in the layouts callers hold them: Fortran-ordered (taken from another model), C-ordered,
    # single-column (rank 1: both orders at once)
    from pyttb.gcp.fg_setup import Objectives
    from pyttb.gcp.optimizers import LBFGSB, Adam

    e.shape = tuple(max(3, s) for s in e.shape)
    X = _algo_data(e, "tensor")
    R = int(e.rng.integers(1, 3))
    lay = int(e.rng.integers(0, 3))
    mats = [e.rng.random((s, R)) + 0.1 for s in e.shape]
    mats = [np.asfortranarray(m) for m in mats] if lay == 0 else [np.ascontiguousarray(m) for m in mats] if lay == 1 else [np.asfortranarray(m) if i % 2 else m for i, m in enumerate(mats)]
    init = mats if e.rng.random() < 0.7 else tuple(mats)
    opt = LBFGSB(maxiter=2) if e.rng.random() < 0.5 else Adam(max_iters=1, epoch_iters=2)
    return "gcp_opt", ttb.gcp_opt, (X, R, Objectives.GAUSSIAN, opt), {"init": init, "printitn": 0}


for _sn in ("nonzeros", "zeros", "uniform", "stratified", "semistrat"):
    def _mkS(sn):
        @entry(f"gcp.samplers.{sn}", (2, 3))
        def _(e, sn=sn):
            # the stratum samplers called directly; requests that cover exactly what there is (every nonzero once) included
            from pyttb.gcp import samplers as SAM
            from pyttb.pyttb_utils import tt_sub2ind

            e.shape = tuple(max(3, s) for s in e.shape)
            A = np.floor(np.abs(e.arr()) * 3) * (e.rng.random(e.shape) < 0.5)
            if not A.any():
                A[(0,) * e.N] = 2.0
            S = e.sptensor(A=A)
            nnz = int(S.nnz)
            k = [nnz, nnz, max(1, nnz - 1), nnz + 2, 1][int(e.rng.integers(0, 5))]
            nzidx = np.sort(tt_sub2ind(S.shape, S.subs))
            if sn == "nonzeros":
                return "gcp.samplers.nonzeros", SAM.nonzeros, (S, k, bool(e.rng.integers(0, 2))), {}
            if sn == "zeros":
                nz_ = max(1, min(3, int(np.prod(e.shape)) - nnz))
                return "gcp.samplers.zeros", SAM.zeros, (S, nzidx, nz_), {"with_replacement": True}
            if sn == "uniform":
                return "gcp.samplers.uniform", SAM.uniform, (ttb.tensor(A.copy()), k), {}
            if sn == "stratified":
                return "gcp.samplers.stratified", SAM.stratified, (S, nzidx, k, 2), {}
            return "gcp.samplers.semistrat", SAM.semistrat, (S, k, 2), {}
    _mkS(_sn)


def _gcp_parts(e):
    from pyttb.gcp.fg_setup import Objectives, setup

    fh, gh, _lb = setup(Objectives.GAUSSIAN)
    K = e.ktensor(R=2)
    X = e.tensor()
    return fh, gh, K, X


@entry("gcp.fg.evaluate", (2, 3))
def _(e):
    from pyttb.gcp.fg import evaluate

    fh, gh, K, X = _gcp_parts(e)
    W = ttb.tensor((e.rng.random(e.shape) < 0.7).astype(float)) if e.rng.random() < 0.5 else None
    return "gcp.fg.evaluate", evaluate, (K, X, W, fh, gh), {}


@entry("gcp.fg_est.estimate(weights checked)", (2, 3))
def _(e):
    from pyttb.gcp.fg_est import estimate

    fh, gh, K, X = _gcp_parts(e)
    subs = np.array(list(np.ndindex(*e.shape)))
    subs = subs[e.rng.permutation(subs.shape[0])[: max(2, subs.shape[0] // 2)]]
    vals = X.data[tuple(subs.T)].copy()
    import warnings

    def run(*a):
        with warnings.catch_warnings():
            warnings.simplefilter("ignore")
            return estimate(*a)
    return "gcp.fg_est.estimate", run, (K, subs, vals, np.ones(subs.shape[0]), fh, gh), {}


@entry("hosvd(ranks array with automatic entries)", (2, 3))
def _(e):
    e.shape = tuple(max(3, s) for s in e.shape)
    ranks = np.array([2] * e.N)
    ranks[int(e.rng.integers(0, e.N))] = 0
    form = int(e.rng.integers(0, 3))
    ranks = ranks if form == 0 else ranks.reshape(1, -1) if form == 1 else ranks.reshape(-1, 1)
    return "hosvd", ttb.hosvd, (_algo_data(e, "tensor"), 0.05), {"verbosity": 0, "ranks": ranks, "dimorder": np.arange(e.N)[::-1].copy()}


@entry("cp_als(option arrays)", (3,))
def _(e):
    e.shape = tuple(max(3, s) for s in e.shape)
    return "cp_als", ttb.cp_als, (_algo_data(e, "tensor"), 2), {"init": e.ktensor(R=2, positive=True), "maxiters": 2, "printitn": 0,
                                                                  "dimorder": np.array([2, 0, 1]), "optdims": np.array([0, 2])}


@entry("tucker_als(option arrays)", (3,))
def _(e):
    e.shape = tuple(max(3, s) for s in e.shape)
    return "tucker_als", ttb.tucker_als, (_algo_data(e, "tensor"), np.array([2, 1, 2])), {"maxiters": 2, "printitn": 0, "dimorder": np.array([2, 0, 1])}


@entry("hosvd", (2, 3))
def _(e):
    e.shape = tuple(max(3, s) for s in e.shape)
    return "hosvd", ttb.hosvd, (_algo_data(e, "tensor"), 0.1), {"verbosity": 0}


@entry("tucker_als(given)", (3,))
def _(e):
    e.shape = tuple(max(3, s) for s in e.shape)
    X = _algo_data(e, "tensor")
    init = [np.linalg.qr(gen.normals(e.rng, (s, 2)))[0] for s in e.shape]
    return "tucker_als", ttb.tucker_als, (X, 2), {"init": init, "maxiters": 2, "printitn": 0}


@entry("tucker_als(random)", (3,))
def _(e):
    e.shape = tuple(max(3, s) for s in e.shape)
    return "tucker_als", ttb.tucker_als, (_algo_data(e, "tensor"), 2), {"maxiters": 2, "printitn": 0}


# ------------------------------------------------------------------ copy=False as operand --------
@entry("tensor(copy=False) then op", (2, 3), share_ok=True)
def _(e):
    a = np.asfortranarray(e.arr())
    return "tensor.__init__", ttb.tensor, (a,), {"copy": False}


@entry("op on tensor built with copy=False", (2, 3))
def _(e):
    a = np.asfortranarray(e.arr())
    T = ttb.tensor(a, copy=False)
    return "tensor.__add__", operator.add, (T, 1.0), {}


@entry("tensor.to_tenmat(copy=False)", (2, 3), share_ok=True)
def _(e):
    r, c = e.partition()
    return "tensor.to_tenmat", e.tensor().to_tenmat, (np.array(r, dtype=int), np.array(c, dtype=int)), {"copy": False}


@entry("tenmat.to_tensor(copy=False)", (2, 3), share_ok=True)
def _(e):
    return "tenmat.to_tensor", e.tenmat().to_tensor, (), {"copy": False}


# ------------------------------------------------------------------ execution --------------------
def _cross(case, ctx):
    import importlib

    from ..core import CaseAbort
    from ..denote import DenoteError

    mod = importlib.import_module(f"pvm.props.{case['prop'].lower()}")
    ctx.accept = lambda s: s in ("MUTATED", "ALIAS")
    np.random.seed(int(case["case"].get("gseed") or 0))
    try:
        mod.run_case(case["case"], ctx)
    except (CaseAbort, DenoteError):
        pass
    finally:
        ctx.accept = None
    ctx.feat(entry="cross:" + case["prop"])


def run_case(case, ctx):
    if case["w"] == "cross":
        return _cross(case, ctx)
    e = Env(np.random.default_rng(case["cseed"]), case["N"])
    ent = CATALOGUE[case["entry"]]
    made = ent["make"](e)
    if made is None:
        return
    op, fn, args, kw = made
    ctx.feat(entry=case["entry"].split("(")[0], form=case["entry"], N=case["N"])
    r = ctx.call(op, fn, *args, _inplace=ent["inplace"], _share_ok=ent["share_ok"], **kw)
    if not r.ok:
        # an unexpected raise is not C05's business (C01..C20 judge values); count it so it is visible
        ctx.tag("raised:" + case["entry"])
        return
    ctx.tag("ok")
    # follow-up observation through the returned object: an in-place write to the result must not be visible in the operands
    if ent["share_ok"] or r.value is None:
        return
    named = {f"arg{i}": a for i, a in enumerate(args)}
    recv = getattr(fn, "__self__", None)
    if recv is not None and not isinstance(recv, type):
        named["self"] = recv
    if ent["inplace"] and r.value is named.get("self"):
        return
    snap = Snapshot(named)
    wrote = 0
    for _, ra in collect(r.value, "result"):
        if ra.size and ra.dtype.kind in "fiu" and ra.flags.writeable:
            try:
                ra += 1
                wrote += 1
            except Exception:  # noqa: BLE001
                pass
    ctx.evals += 1
    if wrote:
        for p in snap.changed():
            if ent["inplace"] and p.startswith("self"):
                continue
            ctx.fail(op, "ALIAS-WRITE", f"writing through the result changed operand buffer {p}", path=p.split("[")[0])
