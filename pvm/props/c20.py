"""C20 -- generators and aggregating constructors build what they advertise."""
import itertools

import numpy as np

from .. import load
from .. import gen, refops
from ..denote import denote, same, close
from ..wellformed import wellformed

np_, ttb = load()
ID = "C20"
RULE = ("case = (generator, shape N=1..4 sizes 1..4, arguments: element vector shorter / equal / longer than the shape, requested count 1..size or "
        "density grid up to 1.0, global seed, subscript list with multiplicities 1..5 in shuffled order, reducer); all shapes with N<=3 sizes 1..3 are "
        "enumerated for the dense generators; non-trivial = >= 2 cells; distinct = hash of case")
ANCHORS = ["tensor:tenones", "tensor:tenzeros", "tensor:tenrand", "tensor:tendiag", "tensor:teneye", "tensor:tensor.from_function",
           "sptensor:sptenrand", "sptensor:sptendiag", "sptensor:sptensor.from_function", "sptensor:sptensor.from_aggregator",
           "ktensor:ktensor.from_function"]
EXHAUSTIVE = {"quick": {"shapes N<=3 sizes 1..3 for tenones/tenzeros/tenrand/from_function": "complete",
                        "sptenrand counts 1..size for every shape with <= 12 cells (N<=3)": "complete"},
              "thorough": {"same with sizes 1..4 and 20 seeds": "complete"}}
NPINT_ARGS = True     # a quarter of the cases pass their integer arguments as NumPy integers (core.Ctx.begin)
STRIDED_ARGS = True   # a quarter of the cases pass every array argument as a strided, non-contiguous view (core.Ctx.begin)
SEQ_ARGS = True       # a quarter of the cases pass short integer arrays (mode lists, permutations) as plain lists / tuples (core.Ctx.begin)
WATCHDOG = {"quick": 600, "thorough": 3000}


def nontrivial(case):
    return int(np.prod(case.get("shape", [2]))) >= 2


def gen_cases(tier, seed):
    rng = gen.rng_for(seed, ID, tier)
    cs = itertools.count(1)

    def C(**kw):
        kw["cseed"] = int(seed) * 275604541 % (2 ** 31) + next(cs)
        kw["gseed"] = int(rng.integers(0, 2 ** 31))
        return kw

    sizes = (1, 2, 3) if tier == "quick" else (1, 2, 3, 4)
    for shp in gen.all_shapes(3, sizes) + [gen.rand_shape(rng, 4, 1, 4) for _ in range(4 if tier == "quick" else 30)]:
        for g in ("tenones", "tenzeros", "tenrand", "tensor.from_function", "ktensor.from_function"):
            yield C(w="dense", gen=g, shape=list(shp), order=["F", "C"][int(rng.integers(0, 2))])
    # diagonals: element vectors shorter, equal and longer than the requested shape; shape omitted
    for N in range(1, 5):
        for _ in range(3 if tier == "quick" else 20):
            shp = gen.rand_shape(rng, N, 1, 4)
            for nel in range(1, max(shp) + 2):
                for sparse in (False, True):
                    yield C(w="diag", shape=list(shp), nel=nel, sparse=sparse, with_shape=True, mo=(None if sparse else [None, "F", "C"][int(rng.integers(0, 3))]))
    for nel in (1, 2, 3):
        for sparse in (False, True):
            yield C(w="diag", shape=[nel] * nel, nel=nel, sparse=sparse, with_shape=False)
    # identity tensors
    for order in (2, 4, 6):
        for size in (1, 2, 3):
            if order == 6 and size == 3 and tier == "quick":
                continue
            for mo in (None, "F", "C"):
                yield C(w="eye", order=order, size=size, mo=mo)
    # random sparse: every count for tiny shapes, densities, larger tensors, seeds
    small = [s for s in gen.all_shapes(3, (1, 2, 3, 4)) if 2 <= int(np.prod(s)) <= 12]
    for shp in (gen.take(rng, small, 12) if tier == "quick" else small):
        n = int(np.prod(shp))
        for k in range(1, n + 1):
            yield C(w="sprand", shape=list(shp), how="nonzeros", amount=k, via=["sptenrand", "from_function"][k % 2])
        for dens in (0.1, 0.5, 0.9, 1.0):
            yield C(w="sprand", shape=list(shp), how="density", amount=dens, via="sptenrand")
    for _ in range(10 if tier == "quick" else 100):
        shp = gen.rand_shape(rng, int(rng.integers(2, 5)), 3, 8)
        n = int(np.prod(shp))
        yield C(w="sprand", shape=list(shp), how="nonzeros", amount=int(rng.integers(1, max(2, n // 3))), via="sptenrand")
        yield C(w="sprand", shape=list(shp), how="density", amount=float(rng.choice([0.01, 0.2, 0.7])), via="sptenrand")
        yield C(w="sprand", shape=list(shp), how="nonzeros", amount=n - int(rng.integers(1, 3)), via="sptenrand")
    # index spaces beyond 2^63 cells (the cell count no longer fits a machine integer): the requested density still decides the count
    for shp, dens in (([65536] * 4, 1e-18), ([100000] * 4, 1e-18), ([2 ** 21] * 3, 3e-18), ([2 ** 16, 2 ** 16, 2 ** 16, 2 ** 15], 2e-18), ([2 ** 20] * 3, 2e-17),
                      ([3, 2 ** 62], 1e-18), ([2 ** 40, 2 ** 30], 4e-21)):
        yield C(w="sprand", shape=shp, how="density", amount=dens, via="sptenrand")
    # aggregating constructor with subscripts held in a narrow integer type, reaching the largest value of that type
    for dt, shp in (("uint8", [256, 2]), ("int8", [2, 128]), ("uint16", [65536]), ("int16", [3, 32768]), ("uint8", [256, 256])):
        for ws in (True, False):
            yield C(w="aggregate_narrow", shape=shp, subs_dtype=dt, with_shape=ws, red=["sum", "max", "default"][int(rng.integers(0, 3))])
    # aggregating constructor
    REDS = ["sum", "max", "min", "mean", "len", "custom", "default", "len_name", "var", "std", "prod", "first", "last", "pick_first", "ends", "ramp"]
    for i in range(96 if tier == "quick" else 800):
        shp = gen.rand_shape(rng, int(rng.integers(1, 4)), 1, 4)
        yield C(w="aggregate", shape=list(shp), red=REDS[i % len(REDS)],
                nuniq=int(rng.integers(0, 6)), with_shape=bool(rng.integers(0, 4) != 0), mult=["any", "any", "distinct", "descending"][(i // len(REDS)) % 4])
    # values that are not numbers / not finite: a result that is NaN or infinite is not zero and keeps its place
    for red in ("sum", "default", "mean", "custom", "max", "min", "pick_first", "ramp"):
        for nf in ("nan", "inf", "-inf", "inf-inf"):
            for ws in (True, False):
                shp = gen.rand_shape(rng, int(rng.integers(1, 4)), 2, 4)
                yield C(w="aggregate", shape=list(shp), red=red, nuniq=int(rng.integers(1, 5)), with_shape=ws, mult="any", nonfinite=nf)


def run_case(case, ctx):
    rng = np.random.default_rng(case["cseed"])
    np.random.seed(case["gseed"])
    globals()["_w_" + case["w"]](case, ctx, rng)


def _w_dense(case, ctx, rng):
    shape = tuple(case["shape"])
    g = case["gen"]
    ctx.feat(gen=g, N=len(shape))
    if g in ("tenones", "tenzeros", "tenrand"):
        fn = getattr(ttb, g)
        T = ctx.must(g, fn, shape, **({"order": case["order"]} if rng.random() < 0.5 else {}))
        ok = isinstance(T, ttb.tensor) and tuple(T.shape) == shape and tuple(T.data.shape) == shape
        ctx.check(ok, g, "WRONG-SHAPE", f"{g}({shape}) has shape {getattr(T, 'shape', None)}")
        if not ok:
            return
        if g == "tenones":
            ctx.check(bool(np.all(T.data == 1.0)), g, "WRONG", "entries are not all one")
        elif g == "tenzeros":
            ctx.check(bool(np.all(T.data == 0.0)), g, "WRONG", "entries are not all zero")
        else:
            ctx.check(bool(np.all((T.data >= 0) & (T.data < 1))), g, "WRONG", "entries outside [0, 1)")
            np.random.seed(case["gseed"])
            T2 = ttb.tenrand(shape)
            ctx.check(bool(np.array_equal(T.data, T2.data)) or T.data.size == 0, g, "NOT-REPRODUCIBLE", "same global seed gives another tensor")
            if T.data.size >= 8:
                ctx.check(len(np.unique(T.data)) > 1, g, "WRONG", "random tensor is constant")
    elif g == "tensor.from_function":
        A = gen.normals(rng, shape)
        calls = []
        # what the function hands back: the array itself (either memory order), or the same values as a vector / a column / an array of
        # another shape with the same number of entries -- those are folded into the requested shape, first index fastest
        ret = ["array", "array-C", "vector", "column", "other-shape"][gen.pick(case) % 5]
        vec = A.reshape(-1, order="F").copy()
        if ret == "array":
            out = np.asfortranarray(A)
        elif ret == "array-C":
            out = np.ascontiguousarray(A)
        elif ret == "vector":
            out = vec
        elif ret == "column":
            out = vec.reshape(-1, 1)
        else:
            out = np.reshape(vec, tuple(reversed(shape)), order="F")
        ctx.feat(returns=ret)

        def f(s):
            calls.append(tuple(s))
            return out.copy(order="K")
        T = ctx.must(g, ttb.tensor.from_function, f, shape)
        ctx.check(tuple(T.shape) == shape and same(denote(T), A), g, "WRONG",
                  lambda: f"from_function does not hold the values the function returned (returned as {ret} of shape {out.shape}): shape {T.shape}, want {shape}")
        ctx.check(calls == [shape], g, "WRONG", f"function called with {calls}, want one call with {shape}")
    else:
        R = int(rng.integers(1, 4))
        mats = {}

        def f(s):
            m = gen.normals(rng, tuple(s))
            mats[len(mats)] = (tuple(s), m)
            return m.copy()
        K = ctx.must(g, ttb.ktensor.from_function, f, shape, R)
        ok = isinstance(K, ttb.ktensor) and tuple(K.shape) == shape and K.ncomponents == R
        ctx.check(ok, g, "WRONG-SHAPE", f"ktensor.from_function shape {getattr(K, 'shape', None)}")
        if ok:
            ctx.check(bool(np.all(K.weights == 1.0)) and all(mats[i][0] == (shape[i], R) and same(K.factor_matrices[i], mats[i][1]) for i in range(len(shape))),
                      g, "WRONG", "factor matrices are not the function's outputs of shape (I_n, R) / weights not one")


def _w_diag(case, ctx, rng):
    shape = tuple(case["shape"])
    nel = case["nel"]
    el = np.round(rng.uniform(1, 9, size=nel), 3) * rng.choice([-1.0, 1.0], size=nel)
    if rng.random() < 0.35:
        el[int(rng.integers(0, nel))] = 0.0       # a zero on the diagonal (e.g. a switched-off component's weight) is an implicit zero
    sparse = case["sparse"]
    g = "sptendiag" if sparse else "tendiag"
    ctx.feat(gen=g, N=len(shape), rel=("shorter" if nel < min(shape) else "longer" if nel > max(shape) else "within"), with_shape=case["with_shape"],
             zero_el=bool(np.any(el == 0)))
    fn = ttb.sptendiag if sparse else ttb.tendiag
    kwo = {} if case.get("mo") is None else {"order": case["mo"]}
    ctx.feat(mo=str(case.get("mo")))
    T = ctx.must(g, fn, el.copy(), *([shape] if case["with_shape"] else []), **kwo)
    N = len(shape)
    want_shape = tuple(max(nel, s) for s in shape) if case["with_shape"] else (nel,) * nel
    want = np.zeros(want_shape)
    for i in range(nel):
        want[(i,) * len(want_shape)] = el[i]
    ok = tuple(T.shape) == want_shape
    ctx.check(ok, g, "WRONG-SHAPE", f"{g} shape {T.shape} want {want_shape}")
    if ok:
        ctx.check(same(denote(T), want), g, "WRONG", lambda: f"{g}: {denote(T).tolist()} want {want.tolist()}")
    if sparse:
        ctx.structural(T, g, nozero=True)
    else:
        # nothing may be remembered between calls: scribble over the first result, ask again
        T.data[...] = 99.0
        T2 = ctx.must(g, fn, el.copy(), *([shape] if case["with_shape"] else []), **kwo)
        ctx.check(tuple(T2.shape) == want_shape and same(denote(T2), want), g, "WRONG", "second call (after the first result was overwritten in place) differs", second_call=True)


def _w_eye(case, ctx, rng):
    order, size = case["order"], case["size"]
    ctx.feat(gen="teneye", order=order, size=size)
    kwo = {} if case.get("mo") is None else {"order": case["mo"]}
    ctx.feat(mo=str(case.get("mo")))
    T0 = ctx.must("teneye", ttb.teneye, order, size, **kwo)
    if isinstance(T0, ttb.tensor):
        T0.data[...] = 7.0      # nothing may be remembered between calls
    T = ctx.must("teneye", ttb.teneye, order, size, **kwo)
    ok = isinstance(T, ttb.tensor) and tuple(T.shape) == (size,) * order
    ctx.check(ok, "teneye", "WRONG-SHAPE", f"teneye({order},{size}) shape {getattr(T, 'shape', None)}")
    if not ok:
        return
    A = denote(T)
    for _ in range(5):
        x = rng.standard_normal(size)
        x = x / np.linalg.norm(x)
        # symmetric multiplication by x in all modes but the first gives x back
        y = refops.ttsv(A, x, skip=1)
        ctx.check(close(y, x, tol=1e-12, scale=1.0), "teneye", "NOT-IDENTITY", lambda: f"I x^(m-1) = {np.asarray(y).tolist()} for unit x = {x.tolist()}")
        r = ctx.call("tensor.ttsv", T.ttsv, x.copy(), 0)
        if r.ok:
            ctx.check(close(np.asarray(r.value).reshape(-1), x, tol=1e-12, scale=1.0), "teneye", "NOT-IDENTITY", "ttsv(x, 0) != x")
    ctx.check(all(np.array_equal(np.transpose(A, p), A) for p in itertools.islice(itertools.permutations(range(order)), 24)), "teneye", "WRONG", "identity tensor is not symmetric")


def _w_sprand(case, ctx, rng):
    import math

    shape = tuple(int(x) for x in case["shape"])
    size = math.prod(shape)
    how, amount, via = case["how"], case["amount"], case["via"]
    want_n = int(np.floor(amount)) if how == "nonzeros" else int(np.ceil(size * amount))
    ctx.feat(gen=via, how=how, saturation=("full" if want_n == size else "near" if want_n > 0.5 * size else "low"), tiny=(size <= 12))
    drawn = []

    def valfun(s):
        v = np.round(np.random.uniform(0.5, 1.5, size=s), 6)
        drawn.append(np.array(v))
        return v
    if via == "sptenrand":
        fn, kw = ttb.sptenrand, ({"nonzeros": amount} if how == "nonzeros" else {"density": amount})
        mk = lambda: fn(shape, **kw)  # noqa: E731
    else:
        mk = lambda: ttb.sptensor.from_function(valfun, shape, amount)  # noqa: E731
    np.random.seed(case["gseed"])
    r = ctx.call(via, mk)
    if not r.ok:
        ctx.check(False, via, "RAISE:" + type(r.exc).__name__, f"{type(r.exc).__name__}: {r.exc} (shape {shape}, {how}={amount})")
        return
    S = r.value
    ctx.evals += 1
    for p in wellformed(S, nozero=True):
        ctx.fail(via, "ILLFORMED", p)
    ctx.check(isinstance(S, ttb.sptensor) and tuple(S.shape) == shape, via, "WRONG-SHAPE", f"shape {getattr(S, 'shape', None)} want {shape}")
    accept = {want_n} if how == "nonzeros" else {int(np.floor(size * amount)), int(np.ceil(size * amount))}
    # a draw of k subscripts out of n cells contains a repeat with probability ~ 1 - exp(-k^2 / 2n); all ten retries must contain one
    # for the (known) short count to occur, which is only plausible when k^2 is not small against n
    ctx.check(S.nnz in accept, via, "WRONG-COUNT", f"{S.nnz} nonzeros, requested {sorted(accept)} ({how}={amount}, {size} cells)",
              short=bool(S.nnz < min(accept)), repeats_plausible=bool(4 * want_n * want_n > size), density_one=bool(how == "density" and amount == 1))
    if via == "from_function" and S.nnz:
        ctx.check(len(drawn) == 1 and np.array_equal(np.asarray(S.vals).reshape(-1), drawn[0].reshape(-1)), via, "WRONG",
                  "values are not the supplied function's output")
    elif S.nnz:
        v = np.asarray(S.vals).reshape(-1)
        ctx.check(bool(np.all((v > 0) & (v < 1))), via, "WRONG", "sptenrand values outside (0, 1)")
    drawn.clear()
    np.random.seed(case["gseed"])
    r2 = ctx.call(via, mk)
    if r2.ok:
        ctx.check(tuple(r2.value.shape) == tuple(S.shape) and np.array_equal(r2.value.subs, S.subs) and same(np.asarray(r2.value.vals), np.asarray(S.vals)), via,
                  "NOT-REPRODUCIBLE", "same global seed gives another tensor")


def _w_aggregate_narrow(case, ctx, rng):
    shape = tuple(case["shape"])
    dt = np.dtype(case["subs_dtype"])
    top = [s_ - 1 for s_ in shape]
    rows = [top, top, [int(rng.integers(0, s_)) for s_ in shape], [0] * len(shape)]
    subs = np.array(rows).astype(dt)
    vals = np.array([[1.5], [2.0], [3.0], [-1.0]])
    ctx.feat(gen="from_aggregator", subs_dtype=case["subs_dtype"], with_shape=case["with_shape"], red=case["red"])
    args = [subs.copy(), vals.copy()] + ([shape] if case["with_shape"] else ([None] if case["red"] != "default" else []))
    if case["red"] != "default":
        args.append(case["red"])
    r = ctx.call("sptensor.from_aggregator", ttb.sptensor.from_aggregator, *args)
    if not r.ok:
        ctx.check(False, "sptensor.from_aggregator", "RAISE:" + type(r.exc).__name__, f"{type(r.exc).__name__}: {r.exc}")
        return
    S = r.value
    ctx.check(tuple(int(x) for x in S.shape) == shape, "sptensor.from_aggregator", "WRONG-SHAPE", f"shape {S.shape} want {shape}")
    got = {tuple(int(x) for x in sub): float(v) for sub, v in zip(np.asarray(S.subs).tolist(), np.asarray(S.vals).reshape(-1).tolist())}
    want = {}
    for row, v in zip(rows, vals[:, 0]):
        want.setdefault(tuple(row), []).append(float(v))
    want = {k: (max(v) if case["red"] == "max" else sum(v)) for k, v in want.items()}
    ctx.check(got == want, "sptensor.from_aggregator", "WRONG", f"entries {got} want {want}")
    r2 = ctx.call("sptensor.__init__", ttb.sptensor, np.unique(subs, axis=0), np.ones((len(np.unique(subs, axis=0)), 1)), *([shape] if case["with_shape"] else []))
    if r2.ok:
        ctx.check(tuple(int(x) for x in r2.value.shape) == shape, "sptensor.__init__", "WRONG-SHAPE", f"shape {r2.value.shape} want {shape}")
    else:
        ctx.check(False, "sptensor.__init__", "RAISE:" + type(r2.exc).__name__, f"{type(r2.exc).__name__}: {r2.exc}")


def _w_aggregate(case, ctx, rng):
    shape = tuple(case["shape"])
    N = len(shape)
    size = int(np.prod(shape))
    nu = min(case["nuniq"], size)
    lin = rng.choice(size, size=nu, replace=False) if nu else np.array([], dtype=int)
    usubs = np.stack(np.unravel_index(lin, shape), axis=1) if nu else np.zeros((0, N), dtype=int)
    mult = rng.integers(1, 6, size=nu)
    if case.get("mult") == "distinct":
        mult = np.ones(nu, dtype=int)         # nothing to combine: a reducer is still applied to every one-element group
    subs = np.repeat(usubs, mult, axis=0)
    vals = rng.choice([-2.0, -1.0, 1.0, 2.0, 3.0, 0.5, 0.0], size=subs.shape[0])
    if rng.random() < 0.3 and nu:
        # force an exact cancellation so that a zero result must be dropped
        vals[: mult[0]] = ([1.0, -1.0] * 3)[: mult[0]] if mult[0] % 2 == 0 else vals[: mult[0]]
    nf = case.get("nonfinite")
    if nf:
        # the first subscript's values: one NaN / one infinity among them, or both infinities (their sum is NaN)
        if nf == "inf-inf":
            mult[0] = max(mult[0], 2)
            subs = np.repeat(usubs, mult, axis=0)
            vals = rng.choice([-2.0, -1.0, 1.0, 2.0, 3.0, 0.5, 0.0], size=subs.shape[0])
            vals[0], vals[1] = np.inf, -np.inf
        else:
            vals[0] = {"nan": np.nan, "inf": np.inf, "-inf": -np.inf}[nf]
    p = rng.permutation(subs.shape[0])
    if nf and case["red"] in ("pick_first", "ramp"):
        p = np.arange(subs.shape[0])          # order-dependent reducers: the non-finite value stays first
    if case.get("mult") == "descending":
        p = np.argsort(-vals, kind="stable")  # every subscript's values are listed in descending order
    subs, vals = subs[p], vals[p]
    red = case["red"]
    pick_first = lambda x: float(x[0])                                       # noqa: E731
    ends = lambda x: float(x[-1] - 2.0 * x[0])                               # noqa: E731
    ramp = lambda x: float(np.sum(np.asarray(x) * np.arange(1, len(x) + 1)))  # noqa: E731
    funs = {"sum": np.sum, "max": np.max, "min": np.min, "mean": np.mean, "len": len, "custom": (lambda x: float(np.sum(np.abs(x)))), "default": np.sum,
            "len_name": len, "var": np.var, "std": np.std, "prod": np.prod, "first": pick_first, "last": (lambda x: float(x[-1])),
            "pick_first": pick_first, "ends": ends, "ramp": ramp}
    # the string names accepted are those of numpy_groupies; callables are applied to each subscript's value list (in listed order)
    arg = {"sum": "sum", "max": "max", "min": "min", "mean": "mean", "len": len, "custom": funs["custom"], "len_name": "len", "var": "var", "std": "std",
           "prod": "prod", "first": "first", "last": "last", "pick_first": pick_first, "ends": ends, "ramp": ramp}.get(red)
    ctx.feat(gen="from_aggregator", red=red, n_unique=("0" if nu == 0 else "1" if nu == 1 else "2+"), with_shape=case["with_shape"], mult=str(case.get("mult")), nonfinite=str(nf))
    if nu == 0 and not case["with_shape"]:
        return
    want = np.zeros(shape)
    for i in range(nu):
        sel = np.all(subs == usubs[i], axis=1)
        with np.errstate(invalid="ignore"):
            want[tuple(usubs[i])] = funs[red](vals[sel])
    args = [subs.copy(), vals.reshape(-1, 1).copy()]
    if case["with_shape"]:
        args.append(shape)
    elif red != "default":
        args.append(None)
    if red != "default":
        args.append(arg)
    S = ctx.must("sptensor.from_aggregator", ttb.sptensor.from_aggregator, *args)
    ctx.structural(S, "sptensor.from_aggregator", nozero=True)
    if case["with_shape"]:
        ok = tuple(S.shape) == shape
    else:
        ok = tuple(S.shape) == tuple(int(x) for x in subs.max(axis=0) + 1)
        want = want[tuple(slice(0, s) for s in S.shape)] if ok else want
    ctx.check(ok, "sptensor.from_aggregator", "WRONG-SHAPE", f"shape {S.shape}")
    if ok:
        ctx.check(close(denote(S), want, tol=1e-12), "sptensor.from_aggregator", "WRONG",
                  lambda: f"reducer {red}: got {denote(S).tolist()} want {want.tolist()} (subs {subs.tolist()}, vals {vals.tolist()})")
        ctx.check(S.nnz == int(np.count_nonzero(want)), "sptensor.from_aggregator", "WRONG-COUNT", f"nnz {S.nnz} vs {int(np.count_nonzero(want))} non-zero results")
