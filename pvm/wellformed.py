"""Structural sanitizer: per-class well-formedness of returned objects (raw state only)."""
import numpy as np

from .denote import kind, sparse_nnz


def _shape_ok(shape, problems, what, allow_empty=False):
    if not isinstance(shape, tuple):
        problems.append(f"{what}: shape is {type(shape).__name__}, not tuple")
        try:
            shape = tuple(shape)
        except Exception:  # noqa: BLE001
            return None
    for s in shape:
        if not isinstance(s, (int, np.integer)) or isinstance(s, (bool, np.bool_)):
            problems.append(f"{what}: shape entry {s!r} is not an integer")
            return None
        if s < 0 or (s == 0 and not allow_empty):
            problems.append(f"{what}: shape entry {s} not positive")
    return tuple(int(s) for s in shape)


def _coord_list(subs, vals, extents, problems, what, nozero):
    n = 0 if subs is None or getattr(subs, "size", 0) == 0 else subs.shape[0]
    if not isinstance(subs, np.ndarray) or not isinstance(vals, np.ndarray):
        problems.append(f"{what}: subs/vals are not ndarrays")
        return
    if n == 0:
        if vals.size != 0 and len(extents) > 0:
            problems.append(f"{what}: vals-rows!=subs-rows (0 subs, {vals.size} vals)")
        return
    if subs.ndim != 2 or subs.shape[1] != len(extents):
        problems.append(f"{what}: subs shape {subs.shape} for {len(extents)} modes")
        return
    if subs.dtype.kind not in "iu":
        problems.append(f"{what}: subs dtype {subs.dtype} is not integer")
    if vals.ndim != 2 or vals.shape != (n, 1):
        problems.append(f"{what}: vals-rows!=subs-rows (subs {subs.shape}, vals {vals.shape})")
        if vals.size != n:
            return
    isubs = subs.astype(np.int64)
    if (isubs < 0).any() or (isubs >= np.array(extents, dtype=np.int64)[None, :]).any():
        problems.append(f"{what}: subscript outside extents {tuple(extents)}")
    if len({tuple(r) for r in isubs.tolist()}) != n:
        problems.append(f"{what}: duplicate subscripts")
    if nozero and vals.size == n and np.any(vals.reshape(n) == 0):
        problems.append(f"{what}: explicit zero stored")


def wellformed(obj, nozero=False):
    """Return a list of problems (empty list = well-formed)."""
    problems = []
    k = kind(obj)
    if k == "sptensor":
        shape = _shape_ok(obj.shape, problems, "sptensor")
        if shape is None:
            return problems
        _coord_list(obj.subs, obj.vals, shape, problems, "sptensor", nozero)
        try:
            reported = obj.nnz
            if reported != sparse_nnz(obj):
                problems.append(f"sptensor: nnz reports {reported}, stored {sparse_nnz(obj)}")
        except Exception as e:  # noqa: BLE001
            problems.append(f"sptensor: nnz raised {type(e).__name__}")
    elif k == "sptenmat":
        tshape = _shape_ok(obj.tshape, problems, "sptenmat")
        if tshape is None:
            return problems
        r = [int(x) for x in np.asarray(obj.rdims).reshape(-1)]
        c = [int(x) for x in np.asarray(obj.cdims).reshape(-1)]
        if sorted(r + c) != list(range(len(tshape))):
            problems.append(f"sptenmat: rdims {r} cdims {c} not a partition of {len(tshape)} modes")
            return problems
        nr = int(np.prod([tshape[d] for d in r])) if r else 1
        nc = int(np.prod([tshape[d] for d in c])) if c else 1
        _coord_list(obj.subs, obj.vals, (nr, nc), problems, "sptenmat", nozero)
        try:
            if tuple(obj.shape) != (nr, nc):
                problems.append(f"sptenmat: shape reports {obj.shape}, expected {(nr, nc)}")
            if obj.nnz != sparse_nnz(obj):
                problems.append(f"sptenmat: nnz reports {obj.nnz}, stored {sparse_nnz(obj)}")
        except Exception as e:  # noqa: BLE001
            problems.append(f"sptenmat: shape/nnz raised {type(e).__name__}")
    elif k == "tensor":
        shape = _shape_ok(obj.shape, problems, "tensor", allow_empty=True)
        if shape is not None and (not isinstance(obj.data, np.ndarray) or tuple(obj.data.shape) != shape):
            problems.append(f"tensor: data.shape {getattr(obj.data, 'shape', None)} != shape {shape}")
    elif k == "ktensor":
        w = obj.weights
        if not isinstance(w, np.ndarray) or w.ndim != 1:
            problems.append(f"ktensor: weights shape {getattr(w, 'shape', None)}")
            return problems
        for i, f in enumerate(obj.factor_matrices):
            if not isinstance(f, np.ndarray) or f.ndim != 2 or f.shape[1] != w.shape[0]:
                problems.append(f"ktensor: factor {i} shape {getattr(f, 'shape', None)} rank {w.shape[0]}")
    elif k == "ttensor":
        cs = tuple(obj.core.shape)
        fm = obj.factor_matrices
        if len(cs) != len(fm):
            problems.append("ttensor: core order != number of factors")
        else:
            for i, f in enumerate(fm):
                is_matrix = isinstance(f, np.ndarray) or (hasattr(f, "toarray") and hasattr(f, "tocoo"))      # ndarray or SciPy sparse matrix
                if not is_matrix or f.ndim != 2 or f.shape[1] != cs[i]:
                    problems.append(f"ttensor: factor {i} shape {getattr(f, 'shape', None)} core {cs}")
        problems += wellformed(obj.core, nozero=False)
    elif k == "tenmat":
        tshape = _shape_ok(obj.tshape, problems, "tenmat", allow_empty=True)
        if tshape is None:
            return problems
        r = [int(x) for x in np.asarray(obj.rindices).reshape(-1)]
        c = [int(x) for x in np.asarray(obj.cindices).reshape(-1)]
        if sorted(r + c) != list(range(len(tshape))):
            problems.append(f"tenmat: rindices {r} cindices {c} not a partition")
            return problems
        nr = int(np.prod([tshape[d] for d in r])) if r else 1
        nc = int(np.prod([tshape[d] for d in c])) if c else 1
        if not isinstance(obj.data, np.ndarray) or obj.data.shape != (nr, nc):
            problems.append(f"tenmat: data shape {getattr(obj.data, 'shape', None)} expected {(nr, nc)}")
    elif k == "sumtensor":
        for p in obj.parts:
            problems += wellformed(p, nozero=False)
    return problems
