import os
import sys


def main(argv):
    if not argv:
        print("usage: check <ID> [quick|thorough] | check <ID> --replay <file>")
        return 2
    prop = argv[0].upper()
    from . import runner

    if len(argv) >= 3 and argv[1] == "--replay":
        return runner.replay(prop, argv[2])
    tier = argv[1] if len(argv) > 1 else os.environ.get("VERIF_TIER", "quick")
    if tier not in ("quick", "thorough"):
        tier = "quick"
    seed = int(os.environ.get("VERIF_SEED", "0") or 0)
    return runner.run_check(prop, tier, seed)


if __name__ == "__main__":
    sys.exit(main(sys.argv[1:]))
